"""C05 - protocol-valid, length-consistent responses (DESIGN.md section 3, C05)."""

from __future__ import annotations

import ast
import copy
import re
from typing import Callable, Dict, List, Optional, Set, Tuple

from .. import flow
from ..cfg import CFG, cfg_of
from ..escape import Escape
from ..flow import ERROR
from ..model import UNKNOWN, AnchorError, Class, Func, UnknownIdiom, dotted, short
from .appflow import ASGI_CALL, WSGI_CALL, AppFlow
from .c04 import Deref, bind_args, fold_in, inert_default, inline_view, local_atom, once_bound, plain_helper, same_names, stable_locals, subst_locals
from .c04_helpers import (Index, aliases, assume_none, attr_of, combine, def_value, effective_method, eval3, is_name,
                          none_test, param_at, pruned, refuted)
from .common import dict_literal, enclosing_map, ancestors, implied, is_self_attr, mentions, nodes_within, single, strip_await, walk_self

WSGI_APP = 'falcon.app.App'
ASGI_APP = 'falcon.asgi.app.App'
START_T = 'http.response.start'
BODY_T = 'http.response.body'


# ---------------------------------------------------------------------------
# shared extraction
# ---------------------------------------------------------------------------

class SendEvent:
    def __init__(self, call, kind, more, body):
        self.call = call
        self.kind = kind      # 'START' | 'BODY'
        self.more = more      # bool (BODY only)
        self.body = body      # None (no bytes) or the expression sent
        self.fields: Dict[object, ast.AST] = {}

    @property
    def label(self):
        if self.kind == 'START':
            return 'START'
        return 'BODY+' if self.more else 'BODY.'


def _is_empty_bytes(p, f, e) -> bool:
    v = p.fold(f.module, e, None, f)
    return isinstance(v, (bytes, str)) and len(v) == 0


_EVENT_KEYS = ('type', 'more_body', 'body')
_DICT_MUTATORS = ('update', 'pop', 'popitem', 'clear', 'setdefault', '__setitem__', '__delitem__', '__ior__')
_ABSENT = object()


def _classify_event(p, f: Func, call, d: Dict[object, ast.AST], m, ff) -> SendEvent:
    """SendEvent of a send call whose event folds to the fields `d` (key -> value expression, evaluated in
    module m / function ff)."""
    if 'type' not in d:
        raise UnknownIdiom('%s: event without a constant "type" key: %s' % (f.qual, short(call.args[0])))
    t = p.fold(m, d['type'], None, ff)
    if t == START_T:
        ev = SendEvent(call, 'START', False, None)
    elif t == BODY_T:
        more = False
        if 'more_body' in d:
            v = d['more_body']
            if isinstance(v, ast.Constant) and isinstance(v.value, bool):
                more = v.value
            else:
                raise UnknownIdiom('%s: more_body is not a literal: %s' % (f.qual, short(v)))
        body = d.get('body')
        if body is not None and _is_empty_bytes(p, f, body):
            body = None
        ev = SendEvent(call, 'BODY', more, body)
    else:
        raise UnknownIdiom('%s: send of event type %r in the HTTP callable' % (f.qual, t))
    ev.fields = d
    return ev


class NamedEvent:
    """An event object handed to `send` by name: a local bound to a dict display in the same function, or a
    module-level constant."""

    def __init__(self, name, kind):
        self.name = name
        self.kind = kind                    # 'local' | 'const'
        self.sends: List[ast.Call] = []     # send(<name>) calls
        self.bind_nodes: Set[int] = set()   # local: CFG nodes that (re)create the object
        self.store_nodes: Set[int] = set()  # local: CFG nodes `<name>[<const>] = v`
        self.mutations: List[Tuple[Func, ast.AST]] = []   # const: (function, statement/call) that modify the object


def _local_event_sites(f: Func, name: str):
    """Every occurrence of the local `name` in f, classified; anything but a binding to a dict display, a
    constant-key field store / read, or the argument of a call is an idiom this rule does not read."""
    parent = enclosing_map(f.node)
    binds, stores, args = [], [], []
    for x in ast.walk(f.node):
        if not is_name(x, name):
            continue
        par = parent.get(id(x))
        gp = parent.get(id(par)) if par is not None else None
        if isinstance(x.ctx, ast.Store):
            if isinstance(par, ast.Assign) and len(par.targets) == 1 and par.targets[0] is x and isinstance(par.value, ast.Dict):
                binds.append(par)
            elif isinstance(par, ast.AnnAssign) and par.target is x and (par.value is None or isinstance(par.value, ast.Dict)):
                if par.value is not None:
                    binds.append(par)
            else:
                raise UnknownIdiom('%s: event local %s is bound by %s' % (f.qual, name, short(par)))
        elif isinstance(par, ast.Subscript) and par.value is x:
            key = par.slice
            if not (isinstance(key, ast.Constant) and isinstance(key.value, str)):
                raise UnknownIdiom('%s: event field with a computed key: %s' % (f.qual, short(par)))
            if isinstance(par.ctx, ast.Load):
                continue
            if isinstance(par.ctx, ast.Store) and isinstance(gp, ast.Assign) and len(gp.targets) == 1 and gp.targets[0] is par:
                stores.append(gp)
            else:
                raise UnknownIdiom('%s: event field modified by %s' % (f.qual, short(gp)))
        elif isinstance(par, ast.Call) and x in par.args:
            args.append(par)
        else:
            raise UnknownIdiom('%s: event local %s used in %s' % (f.qual, name, short(par)))
    return binds, stores, args


def _local_events(p, f: Func, cfg, names: Set[str], send_name: str, calls: List[ast.Call]):
    """Fold the event dicts passed to send by local name: reaching field definitions (dict display at the
    binding, then constant-key subscript stores as field updates)."""
    node_of: Dict[int, List[int]] = {}
    for n in cfg.live_nodes():
        if n.kind == 'stmt' and n.ast is not None:
            node_of.setdefault(id(n.ast), []).append(n.id)
        if n.kind not in ('entry', 'exit', 'xexit', 'join'):
            for x in n.walk():
                if isinstance(x, ast.Call):
                    node_of.setdefault(id(x), []).append(n.id)
    gen: Dict[int, Tuple[str, Dict[object, object]]] = {}       # binding node -> (name, key -> expr | _ABSENT)
    upd: Dict[int, Tuple[str, str, ast.AST]] = {}                # store node -> (name, key, expr)
    named: Dict[str, NamedEvent] = {}
    for name in sorted(names):
        ne = named[name] = NamedEvent(name, 'local')
        binds, stores, args = _local_event_sites(f, name)
        for c in args:
            if not (isinstance(c.func, ast.Name) and c.func.id in same_names(f, send_name)):
                raise UnknownIdiom('%s: event local %s is also passed to %s' % (f.qual, name, short(c.func)))
        if not binds:
            raise UnknownIdiom('%s: event passed to send is not a dict literal / module constant / local bound to a dict display: %s'
                               % (f.qual, name))
        for b in binds:
            d = dict_literal(p, f, b.value)
            if d is None or not all(isinstance(k, str) for k in d):
                raise UnknownIdiom('%s: event display with computed keys: %s' % (f.qual, short(b)))
            fields: Dict[object, object] = dict(d)
            for k in _EVENT_KEYS:
                fields.setdefault(k, _ABSENT)
            for nid in node_of.get(id(b), []):
                gen[nid] = (name, fields)
                ne.bind_nodes.add(nid)
        for s in stores:
            for nid in node_of.get(id(s), []):
                upd[nid] = (name, s.targets[0].slice.value, s.value)
                ne.store_nodes.add(nid)
    vals: Dict[Tuple[str, object, int], object] = {}

    def transfer(node, facts, label):
        if label == 'exc':
            return facts        # the assignment did not complete
        g = gen.get(node.id)
        if g is not None:
            name, fields = g
            out = {x for x in facts if x[0] != name}
            for k, v in fields.items():
                vals[(name, k, node.id)] = v
                out.add((name, k, node.id))
            return frozenset(out)
        u = upd.get(node.id)
        if u is not None:
            name, k, v = u
            vals[(name, k, node.id)] = v
            return frozenset({x for x in facts if not (x[0] == name and x[1] == k)} | {(name, k, node.id)})
        return facts

    reach = flow.forward(cfg, transfer, init=frozenset(), must=False)
    out = {}
    for c in calls:
        name = c.args[0].id
        named[name].sends.append(c)
        nids = node_of.get(id(c), [])
        if not nids:
            continue            # dead code
        alts: Dict[object, List[object]] = {}
        for nid in nids:
            here = [x for x in reach[nid] if x[0] == name]
            if not here:
                raise UnknownIdiom('%s: %s is passed to send before it is bound' % (f.qual, name))
            for x in here:
                v = vals[x]
                if not any(v is w for w in alts.setdefault(x[1], [])):
                    alts[x[1]].append(v)
        d: Dict[object, ast.AST] = {}
        for k, vs in alts.items():
            if k == 'body':
                live = [v for v in vs if v is not _ABSENT and not _is_empty_bytes(p, f, v)]
                if not live:
                    continue
                if len(live) != len(vs) or len(live) > 1:
                    raise UnknownIdiom('%s: the body field of %s at %s has several reaching values' % (f.qual, name, short(c)))
                d[k] = live[0]
                continue
            canon = set()
            for v in vs:
                if v is _ABSENT:
                    canon.add(('absent',))
                else:
                    fv = p.fold(f.module, v, None, f)
                    canon.add(('expr', ast.dump(v)) if fv is UNKNOWN else ('value', repr(fv)))
            if len(canon) > 1:
                raise UnknownIdiom('%s: the %r field of %s at %s has several reaching values' % (f.qual, k, name, short(c)))
            if vs[0] is not _ABSENT:
                d[k] = vs[0]
        out[id(c)] = _classify_event(p, f, c, d, f.module, f)
    return out, named


def _const_event(p, f: Func, q: str, name: str, m) -> NamedEvent:
    """Module-level constant event: the places (in any function of its module) that modify the object."""
    ne = NamedEvent(q, 'const')
    for stmt in m.tree.body:
        if isinstance(stmt, (ast.FunctionDef, ast.AsyncFunctionDef, ast.ClassDef)):
            continue
        for x in ast.walk(stmt):
            if _mutates(x, name):
                raise UnknownIdiom('%s: the event constant %s is modified at import time: %s' % (f.qual, q, short(x)))
    for g in p.funcs.values():
        if g.module is not m:
            continue
        for x in walk_self(g.node):
            tgt = _mutates(x, name)
            if tgt is not None and p.resolve_expr(m, tgt, g) == q:
                ne.mutations.append((g, x))
    return ne


def _mutates(x, name) -> Optional[ast.AST]:
    """the Name node if statement/expression x modifies the dict called `name`"""
    if isinstance(x, (ast.Assign, ast.AugAssign, ast.Delete, ast.AnnAssign)):
        tgs = x.targets if isinstance(x, (ast.Assign, ast.Delete)) else [x.target]
        for t in tgs:
            if isinstance(t, ast.Subscript) and is_name(t.value, name):
                return t.value
            if isinstance(x, ast.AugAssign) and is_name(t, name):
                return t
    if isinstance(x, ast.Call) and isinstance(x.func, ast.Attribute) and x.func.attr in _DICT_MUTATORS and is_name(x.func.value, name):
        return x.func.value
    return None


def _helper_event(p, f: Func, call: ast.Call) -> Optional[Dict[object, ast.AST]]:
    """`send(_make_event(a, b))`: the fields of the dict display the helper returns (its only return, directly or through a
    local bound once to the display), with the helper's parameters replaced by the caller's arguments and the helper's own
    constants folded - a fresh dict per call, exactly like an inline display."""
    g = plain_helper(p, f, call)
    bound = bind_args(g, call) if g is not None and not g.is_async else None
    if bound is None:
        return None
    rets = [r for r in walk_self(g.node) if isinstance(r, ast.Return)]
    if len(rets) != 1 or rets[0].value is None:
        return None
    v = rets[0].value
    ob = once_bound(g)
    if isinstance(v, ast.Name) and v.id in ob:
        # the local must not be modified between the binding and the return
        if any(_mutates(x, v.id) is not None for x in walk_self(g.node)):
            return None
        v = ob[v.id]
    d = dict_literal(p, g, v) if isinstance(v, ast.Dict) else None
    if d is None or not all(isinstance(k, str) for k in d):
        return None
    locals_g = {x.id for x in ast.walk(g.node) if isinstance(x, ast.Name) and isinstance(x.ctx, ast.Store)}

    class Sub(ast.NodeTransformer):
        def visit_Name(self, n):
            if isinstance(n.ctx, ast.Load) and n.id in bound:
                return ast.copy_location(copy.deepcopy(bound[n.id]), n)
            return n

    out: Dict[object, ast.AST] = {}
    for k, e in d.items():
        cv = p.fold(g.module, e, g.cls, g)
        if cv is not UNKNOWN and isinstance(cv, (str, bytes, bool, int, type(None))):
            out[k] = ast.copy_location(ast.Constant(value=cv), e)
            continue
        if any(isinstance(x, ast.Name) and x.id in locals_g and x.id not in bound for x in ast.walk(e)):
            return None         # computed inside the helper: not an expression of the caller
        if g.module is not f.module and any(isinstance(x, ast.Name) and x.id not in bound for x in ast.walk(e)):
            return None
        out[k] = ast.fix_missing_locations(Sub().visit(copy.deepcopy(e)))
    return out


def _send_events(p, f: Func, send_name: str, cfg=None, named_out: Optional[dict] = None) -> Dict[int, SendEvent]:
    """id(call) -> SendEvent for every `send(<event>)` call of f.  The event is a dict display, a module-level
    constant dict, or a local bound to a dict display in f (folded with its constant-key field stores)."""
    out = {}
    by_local: List[ast.Call] = []
    named: Dict[str, NamedEvent] = {}
    send_names = same_names(f, send_name)       # emit = send: the same callable
    for c in walk_self(f.node):
        if not (isinstance(c, ast.Call) and isinstance(c.func, ast.Name) and c.func.id in send_names):
            continue
        if len(c.args) != 1 or c.keywords:
            raise UnknownIdiom('%s: send call %s' % (f.qual, short(c)))
        a0 = c.args[0]
        m, ff = f.module, f
        if isinstance(a0, ast.Name):
            q = p.resolve_expr(f.module, a0, f)
            if not q:
                by_local.append(c)
                continue
            m = p.modules.get(q.rpartition('.')[0], f.module)
            ff = None if m is not f.module else f
        d = dict_literal(p, f, a0)
        if d is None and isinstance(a0, ast.Call):
            d = _helper_event(p, f, a0)     # a module-level / same-class helper that builds the event from what it is handed
        if d is None:
            raise UnknownIdiom('%s: event passed to send is not a dict literal / module constant: %s' % (f.qual, short(a0)))
        if isinstance(a0, ast.Name):
            if q not in named:
                named[q] = _const_event(p, f, q, q.rpartition('.')[2], m)
            named[q].sends.append(c)
        out[id(c)] = _classify_event(p, f, c, d, m, ff)
    if by_local:
        if cfg is None:
            cfg = cfg_of(f, p)
        evs, loc = _local_events(p, f, cfg, {c.args[0].id for c in by_local}, send_name, by_local)
        out.update(evs)
        named.update(loc)
    if not out:
        raise AnchorError('%s: no send(...) calls found' % f.qual)
    if named_out is not None:
        named_out.update(named)
    return out


class AsgiCall:
    """Anchors of falcon.asgi.App.__call__ shared by several rules."""

    def __init__(self, run):
        p = self.p = run.project
        self.af = AppFlow(p, ASGI_CALL)
        f = self.f = self.af.func
        cfg = self.cfg = self.af.cfg
        run.use_cfg(cfg)
        self.ix = Index(cfg)
        self.send = param_at(f, 3, 'send')
        self.named: Dict[str, NamedEvent] = {}
        self.events = _send_events(p, f, self.send, cfg, self.named)
        self.ev_nodes: Dict[int, List[SendEvent]] = {}
        for ev in self.events.values():
            for nid in self.ix.nodes_of(ev.call):
                self.ev_nodes.setdefault(nid, []).append(ev)
        # request / response locals
        self.req = self._local_of('_request_type')
        self.resp = self._local_of('_response_type')
        made = [c for c in walk_self(f.node) if isinstance(c, ast.Call) and is_self_attr(c.func, '_request_type')]
        self.req_nodes = [n for c in made for n in self.ix.nodes_of(c)]
        # rendered body variable: target of `<resp>.render_body()` inside the render try
        self.rendered = None
        for n in walk_self(self.af.render_try):
            if isinstance(n, (ast.Assign, ast.AnnAssign)) and n.value is not None:
                v = strip_await(n.value)
                tg = n.targets[0] if isinstance(n, ast.Assign) and len(n.targets) == 1 else getattr(n, 'target', None)
                if isinstance(v, ast.Call) and isinstance(v.func, ast.Attribute) and v.func.attr == 'render_body' \
                        and is_name(v.func.value, self.resp) and isinstance(tg, ast.Name):
                    self.rendered = tg.id
        if self.rendered is None:
            raise AnchorError('%s: result of %s.render_body() is not bound to a local' % (f.qual, self.resp))
        self.render_nodes = nodes_within(cfg, [self.af.render_try])
        start_join = [i for i in cfg.nodes_for(self.af.render_try) if cfg.node(i).kind == 'join']
        self.before_render = flow.co_reachable(cfg, start_join)

    def _local_of(self, attr):
        for n in walk_self(self.f.node):
            if isinstance(n, (ast.Assign, ast.AnnAssign)) and n.value is not None:
                v = strip_await(n.value)
                tg = n.targets[0] if isinstance(n, ast.Assign) and len(n.targets) == 1 else getattr(n, 'target', None)
                if isinstance(v, ast.Call) and is_self_attr(v.func, attr) and isinstance(tg, ast.Name):
                    return tg.id
        raise AnchorError('%s: self.%s(...) is not bound to a local' % (self.f.qual, attr))

    def labels(self, n):
        return [ev.label for ev in self.ev_nodes.get(n.id, [])]

    def is_rendered_at(self, nid) -> Callable[[ast.AST], bool]:
        """`e` is the rendered-body local, and every definition of it reaching
        node nid was made by (or before) the rendering region."""
        ok = all(d in self.render_nodes or d in self.before_render for d in self.ix.defs_reaching(nid, self.rendered))
        return lambda e: ok and is_name(e, self.rendered)


BODILESS = frozenset({100, 101, 204, 304})
TYPELESS = frozenset({204, 304})


def _member_codes(p, f: Func, e):
    """(status codes, raw folded elements, positive?) for `<x> in <S>` / `<x> not in <S>` / `<x> == <c>` /
    `<x> != <c>` where S (c) folds to a collection of status codes (one status code); else None."""
    if not (isinstance(e, ast.Compare) and len(e.ops) == 1):
        return None
    op = e.ops[0]
    if isinstance(op, (ast.In, ast.NotIn)):
        raw = fold_in(p, f, e.comparators[0])
    elif isinstance(op, (ast.Eq, ast.NotEq)):
        raw = None
        for side in (e.comparators[0], e.left):
            v = fold_in(p, f, side)
            if isinstance(v, (int, str)) and not isinstance(v, bool):
                raw = (v,)
                break
    else:
        return None
    codes = _codes(raw)
    if not codes or not all(100 <= c <= 599 for c in codes):
        return None
    return frozenset(codes), tuple(raw), isinstance(op, (ast.In, ast.Eq))


class StatusTest:
    """A branch on the membership of the response status in a constant collection of status codes: the
    whole test, or operands of a top-level `or` (next to other operands such as the HEAD test)."""

    def __init__(self, node, codes, raw, label):
        self.node = node          # CFG test node
        self.id = node.id
        self.ast = node.ast
        self.lineno = node.lineno
        self.codes = codes        # folded set consulted (union over the membership operands)
        self.raw = raw
        self.label = label        # label of the out-edge taken when the status is in the set
        self.other = 'F' if label == 'T' else 'T'


def _status_tests(p, f: Func, cfg) -> List[StatusTest]:
    out = []
    for n in cfg.live_nodes():
        if n.kind != 'test' or n.copy:
            continue
        t = n.ast
        label = 'T'
        if isinstance(t, ast.UnaryOp) and isinstance(t.op, ast.Not):
            t, label = t.operand, 'F'
        parts = t.values if label == 'T' and isinstance(t, ast.BoolOp) and isinstance(t.op, ast.Or) else [t]
        sl = stable_locals(f)
        parts = [sl[e.id] if isinstance(e, ast.Name) and e.id in sl and isinstance(sl[e.id], ast.Compare) else e for e in parts]
        got = [m for m in (_member_codes(p, f, e) for e in parts) if m is not None]
        if not got:
            continue
        if len(parts) == 1 and not got[0][2]:
            label = 'F' if label == 'T' else 'T'
        elif not all(m[2] for m in got):
            continue        # `a or x not in S`: not a membership branch
        codes = frozenset().union(*[m[0] for m in got])
        raw = tuple(x for m in got for x in m[1])
        out.append(StatusTest(n, codes, raw, label))
    return out


class StatusBranches:
    """The two status decisions of an app's __call__, found by role and read by value:
    `ttest` - the branch that suppresses the default media type; `btest` - the HEAD-or-bodiless branch."""

    def __init__(self, p, f: Func, cfg, ix: Index, resp: str, meth: str):
        self.f, self.cfg = f, cfg
        hcalls = _headers_calls(f, resp, meth)
        if not hcalls:
            raise AnchorError('%s: %s.%s is never called' % (f.qual, resp, meth))
        mvars = set()
        for c in hcalls:
            if len(c.args) != 1:
                raise UnknownIdiom('%s: %s' % (f.qual, short(c)))
            a0 = c.args[0]
            if isinstance(a0, ast.Name):
                mvars.add(a0.id)
            elif not (isinstance(a0, ast.Constant) and isinstance(a0.value, str)):
                raise UnknownIdiom('%s: media type argument %s' % (f.qual, short(a0)))
        mv = self.mv = single(sorted(mvars), 'default-media-type local', f.qual)
        self.use_nodes = {n for c in hcalls if is_name(c.args[0], mv) for n in ix.nodes_of(c)}
        self.null_defs, self.set_defs = set(), set()
        for n in cfg.live_nodes():
            if n.kind == 'stmt' and isinstance(n.ast, (ast.Assign, ast.AnnAssign)):
                tg = n.ast.targets if isinstance(n.ast, ast.Assign) else [n.ast.target]
                if any(is_name(t, mv) for t in tg) and n.ast.value is not None:
                    v = n.ast.value
                    if isinstance(v, ast.Constant) and v.value is None:
                        self.null_defs.add(n.id)
                    else:
                        self.set_defs.add(n.id)
                        if not (isinstance(v, ast.Attribute) and v.attr == 'default_media_type'):
                            raise UnknownIdiom('%s: %s = %s' % (f.qual, mv, short(v)))
        if not self.set_defs:
            raise AnchorError('%s: %s is never set from the default media type' % (f.qual, mv))
        cands = _status_tests(p, f, cfg)
        if not cands:
            raise AnchorError('%s: no branch on the response status being in a constant set of status codes' % f.qual)

        def under(nid, c: StatusTest, labels):
            return any(ix.dominated_by_edge(nid, e) for l in labels for e in flow.edges_out(cfg, c.id, l))

        # the suppressing branch: innermost status test under whose in-set edge the media type is nulled
        tt = None
        if self.null_defs:
            per_def = []
            for nd in sorted(self.null_defs):
                dom = [c for c in cands if under(nd, c, (c.label,))]
                inner = [c for c in dom if all(o is c or under(c.id, o, (o.label,)) for o in dom)]
                per_def.append(inner[0] if len(inner) == 1 else None)
            found = {id(c): c for c in per_def if c is not None}
            if len(found) == 1 and all(c is not None for c in per_def):
                tt = list(found.values())[0]
            elif len(found) > 1:
                raise UnknownIdiom('%s: `%s = None` sits under several different status tests' % (f.qual, mv))
        if tt is None:
            # (no `mv = None` at all, or one outside every status test): the test consulting exactly 204/304
            exact = [c for c in cands if c.codes == TYPELESS]
            if len(exact) != 1:
                raise AnchorError('%s: the branch that suppresses the default media type (`%s = None` under a test of the status against '
                                  'a constant set) was not found' % (f.qual, mv))
            tt = exact[0]
        self.ttest = tt
        outer = [c for c in cands if not any(o is not c and under(c.id, o, ('T', 'F')) for o in cands)]
        rest = [c for c in outer if c is not tt]
        if len(rest) == 1:
            self.btest = rest[0]
        elif not rest and tt in outer and tt.codes != TYPELESS:
            # one test plays both roles (the media type is dropped on the whole bodiless branch): reported by _status_sets
            self.btest = tt
        else:
            raise AnchorError('%s: expected exactly one HEAD-or-bodiless test, found %d' % (f.qual, len(rest)))

    def edges(self, t: StatusTest, in_set: bool):
        return flow.edges_out(self.cfg, t.id, t.label if in_set else t.other)


def _status_atom(p, f: Func, req: str, code: int, head: bool):
    """Truth of the atoms of a test for a concrete (status code, HEAD?) cell."""
    def atom(e):
        m = _member_codes(p, f, e)
        if m is not None:
            return (code in m[0]) == m[2]
        pol = _head_test(e, req)
        return None if pol is None else (head == pol)
    return local_atom(f, atom)


def _head_test(e, req: str) -> Optional[bool]:
    """True for `<req>.method == 'HEAD'`, False for `!=` (either operand order), else None"""
    if isinstance(e, ast.Compare) and len(e.ops) == 1:
        x, y = e.left, e.comparators[0]
        if attr_of(y, req, ('method',)):
            x, y = y, x
        if attr_of(x, req, ('method',)) and isinstance(y, ast.Constant) and y.value == 'HEAD':
            if isinstance(e.ops[0], ast.Eq):
                return True
            if isinstance(e.ops[0], ast.NotEq):
                return False
    return None


def _codes(val) -> Optional[Set[int]]:
    if not isinstance(val, (frozenset, set, tuple, list)):
        return None
    out = set()
    for v in val:
        if isinstance(v, int) and not isinstance(v, bool):
            out.add(v)
        elif isinstance(v, str) and re.match(r'^\d{3}( |$)', v):
            out.add(int(v[:3]))
        else:
            return None
    return out


# ---------------------------------------------------------------------------
# R1 ASGI event protocol
# ---------------------------------------------------------------------------

def r1_asgi_protocol(run):
    a = AsgiCall(run)
    cfg, f = a.cfg, a.f
    if not a.req_nodes:
        raise AnchorError('%s: request construction not found' % f.qual)
    req_nodes = set(a.req_nodes)

    def labels(n):
        out = list(a.labels(n))
        if n.id in req_nodes:
            out.append('REQUEST')
        return out

    # states are strings '<request constructed?>|<INIT/STARTED/DONE>' (flow.typestate formats them with %)
    def delta(st, lab):
        made, s = st.split('|')
        if lab == 'REQUEST':
            return 'made|' + s
        if lab == 'START':
            return made + '|STARTED' if s == 'INIT' else ERROR
        if lab == 'BODY+':
            return made + '|STARTED' if s == 'STARTED' else ERROR
        if lab == 'BODY.':
            return made + '|DONE' if s == 'STARTED' else ERROR
        return st

    def exit_ok(st):
        made, s = st.split('|')
        return s == 'DONE' or (made == 'pre' and s == 'INIT')

    cex, nst, ntr = flow.typestate(cfg, labels, delta, 'pre|INIT', exit_ok=exit_ok)
    run.extra['c05_r1_typestate'] = {'states': nst, 'transitions': ntr, 'send_sites': len(a.events)}
    for ev in a.events.values():
        run.sample({'rule': 'R1', 'send': ev.label, 'at': f.loc(ev.call)})
    if cex is None:
        run.ok('ASGI: on every path exactly one response-start, then body events of which only the last is final, nothing after it; '
               'every normal exit after request construction has sent the final event', f.loc(), 'send-protocol')
    else:
        path, st, reason = cex
        bad = cfg.node(path[-1])
        if bad.kind == 'exit':
            last = [cfg.node(x) for x in path if cfg.node(x).kind not in ('join', 'exit')]
            cons = 'return without final body event after: %s' % (last[-1].text() if last else '?')
            where = '%s:%s' % (f.file, last[-1].lineno if last else 0)
        else:
            cons = bad.ast if bad.ast is not None else bad.text()
            where = '%s:%s' % (f.file, bad.lineno)
        run.fail('ASGI HTTP event protocol violated: %s' % reason, f, cons, where=where, witness=flow.describe_path(cfg, path),
                 runtime_witness='the server receives a second start / a body event before start / an event after the final one / '
                                 'no final event')
    _fresh_events(run, a)
    # each individual send site is classified and reachable only after request construction or in INIT
    for ev in sorted(a.events.values(), key=lambda e: e.call.lineno):
        run.ok('ASGI: send site classified (%s)' % ev.label, f.loc(ev.call), ev.call.args[0])


def _fresh_events(run, a: AsgiCall):
    """An event object handed to `send` belongs to the server from then on (it may queue the event and
    serialise it later): the application neither modifies it afterwards nor, therefore, hands a modified
    version of the same object to `send` again.  Inline displays are fresh per evaluation; a module constant
    must never be modified; a local must not be modified on any path after a send without being rebuilt."""
    cfg, f, ix = a.cfg, a.f, a.ix
    what = 'ASGI: an event object handed to send is not modified afterwards (the server may queue the event and read it later)'
    rw = ('a stream of >= 2 different chunks and a server that queues events instead of consuming them inside send(): every queued body '
          'event shows the last chunk (bytes written != bytes streamed, Content-Length mismatch)')
    for key in sorted(a.named):
        ne = a.named[key]
        if ne.kind == 'const':
            if ne.mutations:
                for (g, x) in ne.mutations:
                    run.fail(what + ' [module constant %s is shared by all requests]' % ne.name, g, x, where=g.loc(x), runtime_witness=rw)
            else:
                run.ok(what, f.loc(ne.sends[0]), 'constant event %s is never modified' % ne.name.rpartition('.')[2])
            continue
        send_nodes = sorted({n for c in ne.sends for n in ix.nodes_of(c)})
        starts = sorted({y for s0 in send_nodes for (y, l) in cfg.succ[s0] if l != 'exc'})
        bad = {}
        for st in sorted(ne.store_nodes):
            path = flow.find_path(cfg, starts, [st], avoid_nodes=ne.bind_nodes)
            if path is not None:
                bad[st] = path
        if not bad:
            run.ok(what, f.loc(ne.sends[0]), 'event local %s is rebuilt before it is modified again' % ne.name)
        for st, path in sorted(bad.items()):
            n = cfg.node(st)
            run.fail(what + ' [a previously sent event object is modified]', f, n.ast, where='%s:%s' % (f.file, n.lineno),
                     witness=flow.describe_path(cfg, path), runtime_witness=rw)


# ---------------------------------------------------------------------------
# R2 WSGI start_response
# ---------------------------------------------------------------------------

def r2_wsgi(run):
    p = run.project
    p.func('falcon.util.misc.code_to_http_status')
    p.func('falcon.response.Response._wsgi_headers')
    af = AppFlow(p, WSGI_CALL)
    cfg, f = af.cfg, af.func
    run.use_cfg(cfg)
    ix = Index(cfg)
    sr = param_at(f, 2, 'start_response')
    srs = same_names(f, sr)         # begin = start_response: the same callable
    calls = [c for c in walk_self(f.node) if isinstance(c, ast.Call) and isinstance(c.func, ast.Name) and c.func.id in srs]
    if not calls:
        raise AnchorError('%s: start_response is never called' % f.qual)
    call_nodes = {n for c in calls for n in ix.nodes_of(c)}

    def labels(n):
        return ['START'] if n.id in call_nodes else []

    def delta(st, lab):
        if lab == 'START':
            return 'STARTED' if st == 'INIT' else ERROR
        return st

    cex, _a, _b = flow.typestate(cfg, labels, delta, 'INIT', exit_ok=lambda st: st == 'STARTED')
    if cex is None:
        run.ok('WSGI: start_response is called exactly once on every normal path', f.loc(), 'start_response-once')
    else:
        path, st, reason = cex
        bad = cfg.node(path[-1])
        cons = bad.ast if bad.ast is not None and bad.kind != 'exit' else 'return without start_response'
        run.fail('WSGI: start_response must be called exactly once: %s' % reason, f, cons,
                 where='%s:%s' % (f.file, bad.lineno or f.node.lineno), witness=flow.describe_path(cfg, path))
    resp = None
    for n in walk_self(f.node):
        if isinstance(n, ast.Assign) and isinstance(n.value, ast.Call) and is_self_attr(n.value.func, '_response_type') \
                and len(n.targets) == 1 and isinstance(n.targets[0], ast.Name):
            resp = n.targets[0].id
    if resp is None:
        raise AnchorError('%s: response object local not found' % f.qual)

    dr = Deref(cfg, ix)

    def defs_satisfy(nid, name, pred) -> Optional[bool]:
        """every definition of the local reaching nid satisfies pred (a local bound to another local / a bound method /
        a function is read as what it was bound to)"""
        ds = ix.defs_reaching(nid, name)
        if not ds:
            return None
        out = []
        for d in ds:
            dv = def_value(cfg, d, name)
            if dv[0] == 'expr' and dv[1] is not None:
                v = dr.norm(dv[1], d)
                if isinstance(v, ast.Name) and v.id != name and ix.defs_reaching(d, v.id):
                    out.append(bool(defs_satisfy(d, v.id, pred)))      # x = y: whatever y holds there
                    continue
                dv = ('expr', v)
            elif dv[0] == 'unpack':
                dv = ('unpack', dr.norm(dv[1], d), dv[2])
            out.append(pred(dv))
        return all(out)

    def is_status_call(dv):
        if dv[0] != 'expr' or not isinstance(dv[1], ast.Call):
            return False
        t = p.callee(f, dv[1])
        return isinstance(t, Func) and t.qual == 'falcon.util.misc.code_to_http_status'

    def is_headers_call(dv):
        e = dv[1] if dv[0] == 'expr' else None
        return isinstance(e, ast.Call) and isinstance(e.func, ast.Attribute) and e.func.attr == '_wsgi_headers' and is_name(e.func.value, resp)

    for c in calls:
        if len(c.args) < 2:
            raise UnknownIdiom('%s: %s' % (f.qual, short(c)))
        for nid in ix.nodes_of(c):
            a0, a1 = c.args[0], c.args[1]
            if isinstance(a0, ast.Name):
                ok = defs_satisfy(nid, a0.id, is_status_call)
            else:
                ok = is_status_call(('expr', a0))
            run.check(bool(ok), 'WSGI: the status line passed to start_response is the result of code_to_http_status', f, c,
                      runtime_witness='resp.status = 404 (int) or http.HTTPStatus.NOT_FOUND reaches the server unnormalised')
            if isinstance(a1, ast.Name):
                ok = defs_satisfy(nid, a1.id, is_headers_call)
            else:
                ok = is_headers_call(('expr', a1))
            run.check(bool(ok), 'WSGI: the header list passed to start_response comes from resp._wsgi_headers()', f,
                      'headers of ' + short(c), where=f.loc(c))
    # what is returned after start_response: the body iterable
    gb = lambda dv: (dv[0] == 'unpack' and dv[2] == 0 and isinstance(dv[1], ast.Call) and dotted(dv[1].func) == 'self._get_body') or \
        (dv[0] == 'expr' and isinstance(dv[1], ast.List) and all(isinstance(e, ast.Constant) and isinstance(e.value, bytes) for e in dv[1].elts))  # noqa: E731
    after = flow.reachable(cfg, list(call_nodes), edge_filter=flow.no_exc)
    rets = [n for n in cfg.live_nodes() if n.id in after and n.kind == 'stmt' and isinstance(n.ast, ast.Return)]
    if not rets:
        raise AnchorError('%s: no return after start_response' % f.qual)
    for r in rets:
        v = r.ast.value
        if not isinstance(v, ast.Name):
            raise UnknownIdiom('%s: returns %s' % (f.qual, short(r.ast)))
        ok = defs_satisfy(r.id, v.id, gb)
        run.check(bool(ok), 'WSGI: the value returned after start_response is the body iterable from _get_body (or an empty list)', f,
                  r.ast, where='%s:%s' % (f.file, r.lineno))


# ---------------------------------------------------------------------------
# R3 precedence text > data > media (> stream)
# ---------------------------------------------------------------------------

TEXT = ('text',)
DATA = ('_data', 'data')
MEDIA = ('_media', 'media', '_media_rendered')


def _precedence(run, f: Func, obj: str, region_stmts, tag: str):
    p = run.project
    cfg = cfg_of(f, p)
    run.use_cfg(cfg)
    ix = Index(cfg)
    region = nodes_within(cfg, region_stmts)
    t_al = aliases(f, lambda e: attr_of(e, obj, TEXT))
    is_text = lambda e: attr_of(e, obj, TEXT) or (isinstance(e, ast.Name) and e.id in t_al)  # noqa: E731
    d_names = {n.id for n in ast.walk(f.node) if isinstance(n, ast.Name)}

    def is_data_at(nid):
        def pred(e):
            if attr_of(e, obj, DATA):
                return True
            if isinstance(e, ast.Name) and e.id in d_names:
                ds = ix.defs_reaching(nid, e.id)
                return bool(ds) and all((lambda dv: dv[0] == 'expr' and attr_of(dv[1], obj, DATA))(def_value(cfg, d, e.id)) for d in ds)
            return False
        return pred

    def text_none(facts3):
        return refuted([(t, tr) for (t, tr, _n) in facts3], assume_none(is_text, False))

    def data_none(facts3):
        for (t, tr, tn) in facts3:
            r = eval3(t, assume_none(is_data_at(tn), False))
            if r is not None and r != tr:
                return True
        return False

    reads = {'text': [], 'data': [], 'media': []}
    # `media = resp._media` (a plain attribute held in a local that is bound once): looking the attribute up consults
    # nothing - the body source is consulted where the LOCAL is read
    sl = stable_locals(f)
    held: Dict[str, str] = {}
    for nm, v in sl.items():
        if isinstance(v, ast.Attribute) and is_name(v.value, obj) and v.attr.startswith('_'):
            kind = 'data' if v.attr in DATA else 'media' if v.attr in MEDIA else None
            if kind:
                held[nm] = kind
    for n in cfg.live_nodes():
        if n.id not in region or n.kind in ('join', 'entry', 'exit', 'xexit'):
            continue
        binding = n.ast if n.kind == 'stmt' and isinstance(n.ast, (ast.Assign, ast.AnnAssign)) else None
        for x in n.walk():
            if isinstance(x, ast.Attribute) and isinstance(x.ctx, ast.Load) and is_name(x.value, obj):
                if binding is not None and binding.value is x and any(
                        isinstance(t, ast.Name) and t.id in held for t in (binding.targets if isinstance(binding, ast.Assign) else [binding.target])):
                    continue
                if x.attr in TEXT:
                    reads['text'].append((n.id, x))
                elif x.attr in DATA:
                    reads['data'].append((n.id, x))
                elif x.attr in MEDIA:
                    reads['media'].append((n.id, x))
            elif isinstance(x, ast.Name) and isinstance(x.ctx, ast.Load) and x.id in held and held[x.id] == 'media':
                reads['media'].append((n.id, x))
    for k in reads:
        if not reads[k]:
            raise AnchorError('%s: no read of the %s source of %s' % (f.qual, k, obj))
    for nid, x in reads['data']:
        f3 = ix.facts3(nid, x)
        run.check(text_none(f3), '%s: resp.data is consulted only when resp.text is None (text > data)' % tag, f,
                  'read of %s in %s' % (short(x), short(cfg.node(nid).ast, 60)), where='%s:%s' % (f.file, cfg.node(nid).lineno),
                  runtime_witness='a response with both text and data set is sent with the data body')
    for nid, x in reads['media']:
        f3 = ix.facts3(nid, x)
        run.check(text_none(f3) and data_none(f3), '%s: resp.media is consulted only when text and data are None (data > media)' % tag, f,
                  'read of %s in %s' % (short(x), short(cfg.node(nid).ast, 60)), where='%s:%s' % (f.file, cfg.node(nid).lineno),
                  runtime_witness='a response with both data and media set is sent with the serialized media')
    return ix


def _stream_after_body(run, f: Func, cfg, ix: Index, resp: str, is_rendered_at, tag: str):
    reads = []
    for n in cfg.live_nodes():
        if n.kind in ('join', 'entry', 'exit', 'xexit'):
            continue
        for x in n.walk():
            if isinstance(x, ast.Attribute) and isinstance(x.ctx, ast.Load) and x.attr == 'stream' and is_name(x.value, resp):
                reads.append((n.id, x))
    if not reads:
        raise AnchorError('%s: %s.stream is never read' % (f.qual, resp))
    for nid, x in reads:
        ok = False
        for (t, tr, tn) in ix.facts3(nid, x):
            r = eval3(t, assume_none(is_rendered_at(tn), False))
            if r is not None and r != tr:
                ok = True
        run.check(ok, '%s: resp.stream is consulted only when the rendered body is None (text/data/media > stream)' % tag, f,
                  'read of %s in %s' % (short(x), short(cfg.node(nid).ast, 60)), where='%s:%s' % (f.file, cfg.node(nid).lineno),
                  runtime_witness='a response with both data and stream set streams instead of sending the data')


def r3_precedence(run):
    p = run.project
    for q, tag in (('falcon.response.Response.render_body', 'Response.render_body'),
                   ('falcon.asgi.response.Response.render_body', 'asgi.Response.render_body')):
        f = p.func(q)
        run.use(f)
        # a same-class helper that renders / caches the media (`data = self._render_media()`) is read as its body
        f = inline_view(p, f)
        _precedence(run, f, 'self', f.node.body, tag)
    a = AsgiCall(run)
    # the inlined copy of render_body lives in the body of the render try
    inline = list(a.af.render_try.body)
    _precedence(run, a.f, a.resp, inline, 'asgi.App.__call__ (inlined render)')
    _stream_after_body(run, a.f, a.cfg, a.ix, a.resp, a.is_rendered_at, 'ASGI')
    # WSGI: _get_body
    g = effective_method(p, WSGI_APP, '_get_body')
    cfg = cfg_of(g, p)
    run.use_cfg(cfg)
    ix = Index(cfg)
    resp = param_at(g, 1, 'resp')
    r_al = aliases(g, lambda e: isinstance(e, ast.Call) and isinstance(e.func, ast.Attribute) and e.func.attr == 'render_body'
                   and is_name(e.func.value, resp))
    if not r_al:
        raise AnchorError('%s: result of %s.render_body() is not bound to a local' % (g.qual, resp))
    _stream_after_body(run, g, cfg, ix, resp, lambda nid: (lambda e: isinstance(e, ast.Name) and e.id in r_al), 'WSGI')


# ---------------------------------------------------------------------------
# R4 bodiless / typeless
# ---------------------------------------------------------------------------

def _headers_calls(f: Func, resp: str, meth: str):
    return [c for c in walk_self(f.node) if isinstance(c, ast.Call) and isinstance(c.func, ast.Attribute) and c.func.attr == meth
            and is_name(c.func.value, resp)]


def _typeless_rules(run, f: Func, cfg, ix: Index, sb: StatusBranches, tag: str):
    btest, ttest = sb.btest, sb.ttest
    mv, use_nodes, null_defs, set_defs = sb.mv, sb.use_nodes, sb.null_defs, sb.set_defs
    t_edges = sb.edges(ttest, True)
    # (i) nulled on the typeless branch before the header list is built
    def labels(n):
        out = []
        if n.id in null_defs:
            out.append('NULL')
        if n.id in set_defs:
            out.append('SET')
        if n.id in use_nodes:
            out.append('^USE')
        return out

    def delta(st, lab):
        if lab == 'NULL':
            return 'null'
        if lab == 'SET':
            return 'set'
        if lab == 'USE':
            return st if st == 'null' else ERROR
        return st

    for (_t, y, _l) in t_edges:
        cex, _a, _b = flow.typestate(cfg, labels, delta, 'set', start=y)
        if cex is None:
            run.ok('%s: for a 204/304 status the default media type is None when the header list is built' % tag, f.loc(ttest.ast), ttest.ast)
        else:
            path, st, reason = cex
            run.fail('%s: for a 204/304 status the default media type is None when the header list is built' % tag, f,
                     'typeless branch: ' + short(ttest.ast), where=f.loc(ttest.ast), witness=flow.describe_path(cfg, path),
                     runtime_witness='a 204 response carries the framework default Content-Type')
    # (ii) ... and only there
    for nd in sorted(null_defs):
        ok = any(ix.dominated_by_edge(nd, e) for e in t_edges)
        run.check(ok, '%s: the default media type is dropped only for typeless (204/304) statuses' % tag, f, cfg.node(nd).ast,
                  where='%s:%s' % (f.file, cfg.node(nd).lineno), runtime_witness='a 200 response without Content-Type')
    if not null_defs:
        run.fail('%s: for a 204/304 status the default media type is dropped' % tag, f, 'no `%s = None`' % mv, where=f.loc(ttest.ast))
    # (iii) the typeless test is evaluated on every bodiless path before headers are built
    # (a typeless test hoisted in front of the bodiless one has been passed already)
    hoisted = btest.id not in flow.reachable(cfg, sorted(set_defs), avoid_nodes=[ttest.id], edge_filter=flow.no_exc)
    for (_b, y, _l) in sb.edges(btest, True):
        path = None
        if btest is not ttest and not hoisted:
            path = flow.find_path(cfg, [y], sorted(use_nodes), avoid_nodes=[ttest.id], edge_filter=flow.no_exc)
        run.check(path is None, '%s: every HEAD-or-bodiless response passes the typeless-status test before its headers are built' % tag, f,
                  'bodiless -> typeless: ' + short(btest.ast, 80), where=f.loc(btest.ast), witness=flow.describe_path(cfg, path) if path else None)


def _content_type_default(run, q: str, tag: str):
    p = run.project
    f = p.func(q)
    cfg = cfg_of(f, p)
    run.use_cfg(cfg)
    mt = param_at(f, 1, 'media_type')
    if not any(is_self_attr(x, '_headers') for x in walk_self(f.node)):
        raise AnchorError('%s does not use self._headers' % q)
    h_al = aliases(f, lambda e: is_self_attr(e, '_headers'))
    is_h = lambda e: is_self_attr(e, '_headers') or (isinstance(e, ast.Name) and e.id in h_al)  # noqa: E731
    is_ct = lambda e: fold_in(p, f, e) == 'content-type'  # noqa: E731  (the literal, a module constant, a local bound to either)
    mts = {mt} | aliases(f, lambda e: is_name(e, mt))
    stores = [n.id for n in cfg.live_nodes() if n.kind == 'stmt' and isinstance(n.ast, ast.Assign)
              and any(isinstance(t, ast.Subscript) and is_h(t.value) and is_ct(t.slice)
                      for t in n.ast.targets) and isinstance(n.ast.value, ast.Name) and n.ast.value.id in mts]
    is_mt = lambda e: isinstance(e, ast.Name) and e.id in mts  # noqa: E731

    def missing(e):
        if isinstance(e, ast.Compare) and len(e.ops) == 1 and is_ct(e.left) \
                and is_h(e.comparators[0]):
            if isinstance(e.ops[0], ast.NotIn):
                return True
            if isinstance(e.ops[0], ast.In):
                return False
        return None

    path = flow.find_path(cfg, [cfg.entry], [cfg.exit], avoid_nodes=stores,
                          edge_filter=pruned(cfg, combine(assume_none(is_mt, False), missing), flow.no_exc))
    run.check(bool(stores) and path is None, '%s: sets content-type to the given default when the header is missing' % tag, f,
              "headers['content-type'] = %s" % mt, where=f.loc(), witness=flow.describe_path(cfg, path) if path else None,
              runtime_witness='a 200 response without any Content-Type header')
    for s in stores:
        guards = [t for (t, tr) in Index(cfg).facts(s) if missing(t) is None and eval3(t, assume_none(is_mt, False)) is None
                  and eval3(t, combine(assume_none(is_mt, False), missing)) is None]
        if guards:
            raise UnknownIdiom('%s: content-type default guarded by %s' % (q, short(guards[0])))


def r4_bodiless_typeless(run):
    p = run.project
    # (b) WSGI branch
    af = AppFlow(p, WSGI_CALL)
    cfg, f = af.cfg, af.func
    run.use_cfg(cfg)
    ix = Index(cfg)
    req, resp = _wsgi_locals(f)
    wsb = sb = StatusBranches(p, f, cfg, ix, resp, '_wsgi_headers')
    btest = sb.btest
    _status_sets(run, f, cfg, ix, sb, 'WSGI')
    _head_operand(run, f, btest, req, 'WSGI')
    sr = param_at(f, 2, 'start_response')
    starts = [n for c in walk_self(f.node) if isinstance(c, ast.Call) and isinstance(c.func, ast.Name) and c.func.id in same_names(f, sr) for n in ix.nodes_of(c)]
    for s in starts:
        run.check(flow.dominated_by_nodes(cfg, s, [btest.id]), 'WSGI: the HEAD-or-bodiless decision precedes start_response', f,
                  cfg.node(s).ast, where='%s:%s' % (f.file, cfg.node(s).lineno))
    rets = [n for n in cfg.live_nodes() if n.kind == 'stmt' and isinstance(n.ast, ast.Return) and isinstance(n.ast.value, ast.Name)]
    wdr = Deref(cfg, ix)
    bvars = set()
    for r in rets:
        v = wdr.norm(r.ast.value, r.id)      # result = body; return result
        if not isinstance(v, ast.Name):
            raise UnknownIdiom('%s: returns %s' % (f.qual, short(r.ast)))
        bvars.add(v.id)
    bv = single(sorted(bvars), 'returned body local', f.qual)

    def blabels(n):
        if n.kind == 'stmt' and isinstance(n.ast, (ast.Assign, ast.AnnAssign)) and n.ast.value is not None:
            from .c04_helpers import defined_names
            if bv in defined_names(n):
                dv = def_value(cfg, n.id, bv)
                if dv[0] == 'expr' and isinstance(dv[1], (ast.List, ast.Tuple)) and not dv[1].elts:
                    return ['EMPTY']
                return ['FULL']
        return []

    for (_b, y, _l) in sb.edges(btest, True):
        cex, _x, _y = flow.typestate(cfg, blabels, lambda st, lab: 'empty' if lab == 'EMPTY' else 'full', 'full', start=y,
                                     exit_ok=lambda st: st == 'empty')
        if cex is None:
            run.ok('WSGI: a HEAD response or a 100/101/204/304 response returns an empty body iterable', f.loc(btest.ast), btest.ast)
        else:
            path, st, reason = cex
            run.fail('WSGI: a HEAD response or a 100/101/204/304 response returns an empty body iterable', f,
                     'bodiless branch: ' + short(btest.ast, 100), where=f.loc(btest.ast), witness=flow.describe_path(cfg, path),
                     runtime_witness='HEAD request to a responder that sets resp.text: body bytes are sent')
    _typeless_rules(run, f, cfg, ix, sb, 'WSGI')
    # (c) ASGI branch
    a = AsgiCall(run)
    asb = sb = StatusBranches(p, a.f, a.cfg, a.ix, a.resp, '_asgi_headers')
    btest = sb.btest
    _status_sets(run, a.f, a.cfg, a.ix, sb, 'ASGI')
    _head_operand(run, a.f, btest, a.req, 'ASGI')
    for nid in sorted(a.ev_nodes):
        run.check(flow.dominated_by_nodes(a.cfg, nid, [btest.id]), 'ASGI: the HEAD-or-bodiless decision precedes every send', a.f,
                  a.cfg.node(nid).ast, where='%s:%s' % (a.f.file, a.cfg.node(nid).lineno))

    def alabels(n):
        return ['BYTES' if ev.body is not None else ev.label for ev in a.ev_nodes.get(n.id, [])]

    def adelta(st, lab):
        if lab == 'BYTES':
            return ERROR
        if lab == 'START':
            return 'STARTED' if st == 'INIT' else ERROR
        if lab == 'BODY.':
            return 'DONE' if st == 'STARTED' else ERROR
        if lab == 'BODY+':
            return ERROR
        return st

    for (_b, y, _l) in sb.edges(btest, True):
        cex, _x, _y = flow.typestate(a.cfg, alabels, adelta, 'INIT', start=y, exit_ok=lambda st: st == 'DONE')
        if cex is None:
            run.ok('ASGI: a HEAD response or a 100/101/204/304 response sends only the start event and an empty final event',
                   a.f.loc(btest.ast), btest.ast)
        else:
            path, st, reason = cex
            bad = a.cfg.node(path[-1])
            run.fail('ASGI: a HEAD response or a 100/101/204/304 response sends only the start event and an empty final event (%s)' % reason,
                     a.f, bad.ast if bad.ast is not None and bad.kind != 'exit' else 'bodiless branch: ' + short(btest.ast, 100),
                     where='%s:%s' % (a.f.file, bad.lineno or btest.lineno), witness=flow.describe_path(a.cfg, path),
                     runtime_witness='HEAD request to a responder that sets resp.text: body bytes are sent')
    _typeless_rules(run, a.f, a.cfg, a.ix, sb, 'ASGI')
    # (c') both stacks decide on the same sets
    for what, w, x, want in (('typeless', wsb.ttest, asb.ttest, TYPELESS), ('bodiless', wsb.btest, asb.btest, BODILESS)):
        run.check(w.codes == x.codes,
                  'WSGI and ASGI agree on the %s statuses' % what, f if w.codes != want else a.f,
                  '%s statuses: WSGI %s, ASGI %s' % (what, sorted(w.codes), sorted(x.codes)), where=f.loc(w.ast),
                  runtime_witness='a %s response differs between the two stacks' % sorted(w.codes ^ x.codes))
    # (d) default content type
    _content_type_default(run, 'falcon.response.Response._wsgi_headers', 'Response._wsgi_headers')
    _content_type_default(run, 'falcon.asgi.response.Response._asgi_headers', 'asgi.Response._asgi_headers')


def _status_kind(f: Func, cfg, ix: Index, t: StatusTest) -> Optional[type]:
    """str / int when every definition of the status local tested by `t` is recognisably a status line
    (code_to_http_status(...)) / a status code (<resp>.status_code); None when it cannot be told."""
    subj = None
    for x in ast.walk(t.ast):
        if isinstance(x, ast.Compare) and isinstance(x.left, ast.Name):
            subj = x.left.id
    if subj is None:
        return None
    kinds = set()
    for d in ix.defs_reaching(t.id, subj):
        dv = def_value(cfg, d, subj)
        e = strip_await(dv[1]) if dv[0] == 'expr' and dv[1] is not None else None
        if isinstance(e, ast.Call) and (is_name(e.func, 'code_to_http_status') or
                                        (isinstance(e.func, ast.Attribute) and e.func.attr == 'code_to_http_status')):
            kinds.add(str)
        elif isinstance(e, ast.Attribute) and e.attr == 'status_code':
            kinds.add(int)
        else:
            kinds.add(None)
    return kinds.pop() if len(kinds) == 1 else None


def _status_sets(run, f: Func, cfg, ix: Index, sb: StatusBranches, tag: str):
    """The sets the two status branches consult, by value (whatever the constants are called)."""
    t, b = sb.ttest, sb.btest
    run.check(t.codes == TYPELESS,
              '%s: the statuses answered without the default Content-Type (the set consulted by the branch that drops the default '
              'media type) are exactly %s; every other response has a Content-Type' % (tag, sorted(TYPELESS)), f,
              'typeless statuses %s in: %s' % (sorted(t.codes), short(t.ast, 100)), where=f.loc(t.ast),
              runtime_witness='a %s response is sent with%s the default Content-Type'
                              % (sorted(TYPELESS ^ t.codes), '' if TYPELESS - t.codes else 'out'))
    if b is not t:
        run.check(b.codes == BODILESS,
                  '%s: the statuses answered without a body (the set consulted by the HEAD-or-bodiless branch) are exactly %s'
                  % (tag, sorted(BODILESS)), f, 'bodiless statuses %s in: %s' % (sorted(b.codes), short(b.ast, 100)), where=f.loc(b.ast),
                  runtime_witness='a %s response is sent with%s' % (sorted(BODILESS ^ b.codes), ' a body' if BODILESS - b.codes else 'out its body'))
        run.check(t.codes <= b.codes, '%s: typeless statuses are a subset of the bodiless ones (the typeless test sits inside the bodiless '
                  'branch)' % tag, f, 'typeless %s <= bodiless %s' % (sorted(t.codes), sorted(b.codes)), where=f.loc(t.ast))
    else:
        run.fail('%s: the HEAD-or-bodiless branch and the branch that drops the default media type are distinct decisions '
                 '(bodiless %s, typeless %s)' % (tag, sorted(BODILESS), sorted(TYPELESS)), f,
                 'one status test for both: %s' % short(t.ast, 100), where=f.loc(t.ast),
                 runtime_witness='a HEAD response to a 200 resource, or a 101 response, is sent without the default Content-Type')
    for st, what in ((t, 'typeless'), (b, 'bodiless')):
        if st is b and b is t:
            continue
        kind = _status_kind(f, cfg, ix, st)
        have = {type(x) for x in st.raw}
        run.check(kind is None or have == {kind}, '%s: the %s set holds values of the type of the status it is compared with' % (tag, what), f,
                  '%s elements %s vs %s status' % (what, sorted(k.__name__ for k in have), kind.__name__ if kind else '?'), where=f.loc(st.ast),
                  runtime_witness='the membership test never matches: a 204 response gets a body / Content-Type')


def _wsgi_locals(f: Func):
    req = resp = None
    for n in walk_self(f.node):
        if isinstance(n, ast.Assign) and isinstance(n.value, ast.Call) and len(n.targets) == 1 and isinstance(n.targets[0], ast.Name):
            if is_self_attr(n.value.func, '_request_type'):
                req = n.targets[0].id
            if is_self_attr(n.value.func, '_response_type'):
                resp = n.targets[0].id
    if req is None or resp is None:
        raise AnchorError('%s: request/response locals not found' % f.qual)
    return req, resp


def _head_operand(run, f: Func, btest, req: str, tag: str):
    head = local_atom(f, lambda e: _head_test(e, req))
    run.check(eval3(btest.ast, head) is (btest.label == 'T'), '%s: a HEAD request takes the bodiless branch whatever the status' % tag, f, btest.ast,
              runtime_witness='HEAD request: the response body is sent')


# ---------------------------------------------------------------------------
# R5 forced Content-Length
# ---------------------------------------------------------------------------

def _cl_stores(cfg, resp: str, p=None, f: Optional[Func] = None, dr: Optional[Deref] = None):
    """node id -> value expression of `<resp>._headers['content-length'] = value` (the header dict through a local bound to
    it, the key through a constant, the value with its locals read as what they were bound to)"""
    out = {}
    for n in cfg.live_nodes():
        if n.kind == 'stmt' and isinstance(n.ast, (ast.Assign, ast.AnnAssign)) and n.ast.value is not None:
            for t in (n.ast.targets if isinstance(n.ast, ast.Assign) else [n.ast.target]):
                if not isinstance(t, ast.Subscript):
                    continue
                base = dr.norm(t.value, n.id) if dr is not None else t.value
                key = t.slice.value if isinstance(t.slice, ast.Constant) else (fold_in(p, f, t.slice) if p is not None else None)
                if attr_of(base, resp, ('_headers',)) and key == 'content-length':
                    out[n.id] = dr.norm(n.ast.value, n.id) if dr is not None else n.ast.value
    return out


def _len_of(e) -> Optional[str]:
    """name n if e is str(len(n))"""
    if isinstance(e, ast.Call) and is_name(e.func, 'str') and len(e.args) == 1:
        i = e.args[0]
        if isinstance(i, ast.Call) and is_name(i.func, 'len') and len(i.args) == 1 and isinstance(i.args[0], ast.Name):
            return i.args[0].id
    return None


def _bodiless_no_length(run, f: Func, cfg, sb: StatusBranches, req: str, stores, tag: str):
    """On the HEAD-or-bodiless branch the framework computes a Content-Length only to describe what a GET
    would have returned (HEAD).  For a bodiless status answered to another method no bytes are sent, so a
    computed length other than '0' contradicts "Content-Length equals the bytes sent".  Decided per status
    of the set the branch consults, by evaluating the tests of the branch for (status, non-HEAD)."""
    p = run.project
    b = sb.btest
    nonzero = sorted(s for s, v in stores.items() if not (isinstance(v, ast.Constant) and v.value in ('0', 0)))
    bad = {}
    for code in sorted(b.codes):
        filt = pruned(cfg, _status_atom(p, f, req, code, False), flow.no_exc)
        for (_b, y, _l) in sb.edges(b, True):
            path = flow.find_path(cfg, [y], nonzero, edge_filter=filt)
            if path is not None:
                bad.setdefault(path[-1], (code, path))
    what = ('%s: a bodiless status (%s) answered to a non-HEAD request gets no computed Content-Length (no body bytes are sent)'
            % (tag, ', '.join(str(c) for c in sorted(b.codes))))
    if not bad:
        run.ok(what, f.loc(b.ast), 'no content-length store on the non-HEAD bodiless paths')
    for nid, (code, path) in sorted(bad.items()):
        n = cfg.node(nid)
        run.fail(what, f, n.ast, where='%s:%s' % (f.file, n.lineno), witness=flow.describe_path(cfg, path),
                 runtime_witness='GET answered with status %d and resp.text set: Content-Length: len(text) but no body bytes' % code)


def r5_content_length(run):
    p = run.project
    # ---- WSGI: _get_body pairs the iterable with its length
    g = effective_method(p, WSGI_APP, '_get_body')
    gcfg = cfg_of(g, p)
    run.use_cfg(gcfg)
    gix = Index(gcfg)
    resp = param_at(g, 1, 'resp')
    r_al = aliases(g, lambda e: isinstance(e, ast.Call) and isinstance(e.func, ast.Attribute) and e.func.attr == 'render_body'
                   and is_name(e.func.value, resp))
    if not r_al:
        raise AnchorError('%s: result of %s.render_body() is not bound to a local' % (g.qual, resp))
    is_r = lambda e: isinstance(e, ast.Name) and e.id in r_al  # noqa: E731
    rets = [n for n in gcfg.live_nodes() if n.kind == 'stmt' and isinstance(n.ast, ast.Return)]
    if not rets:
        raise AnchorError('%s: no return' % g.qual)
    gdr = Deref(gcfg, gix)
    for r in rets:
        v = r.ast.value
        if v is not None:
            v = gdr.norm(v, r.id)        # `size = len(data); return [data], size` / `pair = ([data], len(data)); return pair`
        if not (isinstance(v, ast.Tuple) and len(v.elts) == 2):
            raise UnknownIdiom('%s: returns %s' % (g.qual, short(r.ast)))
        b, ln = v.elts
        where = '%s:%s' % (g.file, r.lineno)
        if isinstance(ln, ast.Constant) and ln.value is None:
            ok = refuted(gix.facts(r.id), assume_none(is_r, False))
            run.check(ok, 'WSGI _get_body: the length is unknown (None) only when the rendered body is None (stream)', g, r.ast, where=where,
                      runtime_witness='resp.text set: no Content-Length is forced')
        elif isinstance(ln, ast.Constant) and ln.value == 0:
            run.check(isinstance(b, (ast.List, ast.Tuple)) and not b.elts, 'WSGI _get_body: length 0 is paired with an empty iterable', g, r.ast,
                      where=where)
        elif isinstance(ln, ast.Call) and is_name(ln.func, 'len') and len(ln.args) == 1 and isinstance(ln.args[0], ast.Name):
            ok = isinstance(b, ast.List) and len(b.elts) == 1 and is_name(b.elts[0], ln.args[0].id)
            run.check(ok, 'WSGI _get_body: the reported length is len() of the single chunk returned', g, r.ast, where=where,
                      runtime_witness='Content-Length differs from the number of body bytes')
        else:
            run.fail('WSGI _get_body: the reported length is len() of the single chunk returned, 0 for no body, None for a stream', g, r.ast,
                     where=where, runtime_witness='Content-Length differs from the number of body bytes')
    # ---- WSGI: __call__ stores it unconditionally
    af = AppFlow(p, WSGI_CALL)
    cfg, f = af.cfg, af.func
    run.use_cfg(cfg)
    ix = Index(cfg)
    req, resp = _wsgi_locals(f)
    wsb = StatusBranches(p, f, cfg, ix, resp, '_wsgi_headers')
    btest = wsb.btest
    # every `(body, length) = self._get_body(...)` (the body may be rendered again, under a try of its own, after a
    # handled rendering failure): all of them bind the same two locals in the same order
    unpacks = []
    for n in walk_self(f.node):
        if isinstance(n, ast.Assign) and isinstance(n.value, ast.Call) and dotted(n.value.func) == 'self._get_body' and len(n.targets) == 1 \
                and isinstance(n.targets[0], ast.Tuple) and len(n.targets[0].elts) == 2 and all(isinstance(e, ast.Name) for e in n.targets[0].elts):
            unpacks.append(n)
    if not unpacks:
        raise AnchorError('%s: `(body, length) = self._get_body(...)` not found' % f.qual)
    pairs = {tuple(e.id for e in u.targets[0].elts) for u in unpacks}
    if len(pairs) != 1:
        raise UnknownIdiom('%s: the results of _get_body are bound to different locals: %s' % (f.qual, sorted(pairs)))
    bv, lv = next(iter(pairs))
    from_get_body = lambda v: any(v is u.value for u in unpacks)  # noqa: E731
    for name, okdef, what in ((lv, lambda dv: (dv[0] == 'unpack' and from_get_body(dv[1]) and dv[2] == 1) or
                               (dv[0] == 'expr' and isinstance(dv[1], ast.Constant) and dv[1].value == 0), 'length'),
                              (bv, lambda dv: (dv[0] == 'unpack' and from_get_body(dv[1]) and dv[2] == 0) or
                               (dv[0] == 'expr' and isinstance(dv[1], (ast.List, ast.Tuple)) and not dv[1].elts), 'body')):
        from .c04_helpers import defined_names
        for n in cfg.live_nodes():
            if name in defined_names(n):
                run.check(okdef(def_value(cfg, n.id, name)), 'WSGI: the %s local only holds what _get_body returned (or the empty body)' % what, f,
                          n.ast if n.ast is not None else n.text(), where='%s:%s' % (f.file, n.lineno))
    stores = _cl_stores(cfg, resp, p, f, Deref(cfg, ix))
    if not stores:
        raise AnchorError("%s: no store to %s._headers['content-length']" % (f.qual, resp))
    good = [s for s, v in stores.items() if isinstance(v, ast.Call) and is_name(v.func, 'str') and len(v.args) == 1 and is_name(v.args[0], lv)]
    sr = param_at(f, 2, 'start_response')
    starts = [n for c in walk_self(f.node) if isinstance(c, ast.Call) and isinstance(c.func, ast.Name) and c.func.id in same_names(f, sr) for n in ix.nodes_of(c)]
    is_len = lambda e: is_name(e, lv)  # noqa: E731
    _bodiless_no_length(run, f, cfg, wsb, req, stores, 'WSGI')
    for (_b, y, _l) in wsb.edges(btest, False):
        path = flow.find_path(cfg, [y], starts, avoid_nodes=good, edge_filter=pruned(cfg, assume_none(is_len, False), flow.no_exc))
        run.check(path is None and bool(good),
                  'WSGI: for a non-HEAD, body-bearing response with a known length, content-length is overwritten with that length '
                  'before start_response', f, "%s._headers['content-length'] = str(%s)" % (resp, lv), where=f.loc(btest.ast),
                  witness=flow.describe_path(cfg, path) if path else None,
                  runtime_witness='responder sets resp.text and a different Content-Length header: the header is sent unchanged')
    # ---- ASGI
    a = AsgiCall(run)
    cfg, f, ix = a.cfg, a.f, a.ix
    asb = StatusBranches(p, f, cfg, ix, a.resp, '_asgi_headers')
    btest = asb.btest
    dr = Deref(cfg, ix)
    stores = _cl_stores(cfg, a.resp, p, f, dr)
    if not stores:
        raise AnchorError("%s: no store to %s._headers['content-length']" % (f.qual, a.resp))
    _bodiless_no_length(run, f, cfg, asb, a.req, stores, 'ASGI')
    sse_al = aliases(f, lambda e: attr_of(e, a.resp, ('_sse', 'sse')))
    is_sse = lambda e: attr_of(e, a.resp, ('_sse', 'sse')) or (isinstance(e, ast.Name) and e.id in sse_al)  # noqa: E731
    if not any(attr_of(x, a.resp, ('stream',)) for x in walk_self(f.node)):
        raise AnchorError('%s: %s.stream is never read' % (f.qual, a.resp))
    st_al = aliases(f, lambda e: attr_of(e, a.resp, ('stream',)))
    is_stream = lambda e: attr_of(e, a.resp, ('stream',)) or (isinstance(e, ast.Name) and e.id in st_al)  # noqa: E731
    rname = a.rendered
    is_r = lambda e: is_name(e, rname)  # noqa: E731
    no_sse = lambda e: False if is_sse(e) else None  # noqa: E731
    no_stream = lambda e: False if is_stream(e) else None  # noqa: E731
    # the server-sent-events branch is a streamed response: its start event carries a constant media type
    def is_sse_start(ev):
        d = ev.fields
        h = strip_await(d.get('headers')) if d.get('headers') is not None else None
        return (ev.kind == 'START' and isinstance(h, ast.Call) and isinstance(h.func, ast.Attribute) and h.func.attr == '_asgi_headers'
                and len(h.args) == 1 and isinstance(h.args[0], ast.Constant) and isinstance(h.args[0].value, str))

    sse_starts = [nid for nid, evs in a.ev_nodes.items() if any(is_sse_start(ev) for ev in evs)]
    start_nodes = [nid for nid, evs in a.ev_nodes.items() if any(ev.kind == 'START' for ev in evs) and nid not in sse_starts]
    f_targets = [y for (_b, y, _l) in asb.edges(btest, False)]
    if not f_targets:
        raise AnchorError('%s: the HEAD-or-bodiless test has no false branch' % f.qual)
    # (A1) rendered body present
    with_body = pruned(cfg, combine(assume_none(is_r, False), no_sse), flow.no_exc)
    len_stores = [s for s, v in stores.items() if _len_of(v) == rname]
    path = flow.find_path(cfg, f_targets, start_nodes, avoid_nodes=len_stores + sse_starts, edge_filter=with_body)
    run.check(path is None and bool(len_stores),
              'ASGI: for a non-HEAD, body-bearing response with a rendered body, content-length is overwritten with len(body) before the '
              'start event', f, "%s._headers['content-length'] = str(len(%s))" % (a.resp, rname), where=f.loc(btest.ast),
              witness=flow.describe_path(cfg, path) if path else None,
              runtime_witness='responder sets resp.text and a different Content-Length header: the header is sent unchanged')
    live = flow.reachable(cfg, f_targets, avoid_nodes=sse_starts, edge_filter=with_body)
    sent = [(nid, ev) for nid, evs in a.ev_nodes.items() if nid in live for ev in evs if ev.kind == 'BODY']
    for nid, ev in sent:
        ok = not ev.more and ev.body is not None and is_name(dr.norm(ev.body, nid), rname)
        run.check(ok, 'ASGI: the rendered body is sent as one final event carrying exactly the object whose len() was stored', f, ev.call.args[0],
                  where=f.loc(ev.call), runtime_witness='Content-Length differs from the number of body bytes')
    from .c04_helpers import defined_names
    for s in len_stores:
        for nid, ev in sent:
            between = flow.reachable(cfg, [s], avoid_nodes=sse_starts, edge_filter=with_body) & flow.co_reachable(cfg, [nid])
            redefs = [x for x in between if x not in (s,) and rname in defined_names(cfg.node(x))]
            run.check(not redefs, 'ASGI: the body local is not rebound between the content-length store and the body event', f,
                      'no rebinding of %s' % rname, where=f.loc(ev.call), witness=[cfg.node(x).text() for x in redefs])
    body_nodes = [nid for nid, ev in sent]
    for s0 in start_nodes:
        if s0 in live:
            path = flow.find_path(cfg, [s0], [cfg.exit], avoid_nodes=body_nodes, edge_filter=with_body)
            run.check(path is None and bool(body_nodes), 'ASGI: after the start event the rendered body is always sent', f,
                      'start -> body(%s)' % rname, where='%s:%s' % (f.file, cfg.node(s0).lineno),
                      witness=flow.describe_path(cfg, path) if path else None)
    # (A3) nothing to send
    nothing = pruned(cfg, combine(assume_none(is_r, True), no_sse, no_stream), flow.no_exc)
    zero_stores = [s for s, v in stores.items() if isinstance(v, ast.Constant) and v.value == '0']
    path = flow.find_path(cfg, f_targets, start_nodes, avoid_nodes=zero_stores + sse_starts, edge_filter=nothing)
    run.check(path is None and bool(zero_stores), 'ASGI: with no body and no stream, content-length is set to 0 before the start event', f,
              "%s._headers['content-length'] = '0'" % a.resp, where=f.loc(btest.ast), witness=flow.describe_path(cfg, path) if path else None,
              runtime_witness='an empty 200 response without Content-Length: 0')
    live0 = flow.reachable(cfg, f_targets, avoid_nodes=sse_starts, edge_filter=nothing)
    for nid, evs in sorted(a.ev_nodes.items()):
        if nid in live0:
            for ev in evs:
                if ev.kind == 'BODY':
                    run.check(ev.body is None and not ev.more, 'ASGI: with content-length 0 no body bytes are sent', f, ev.call.args[0],
                              where=f.loc(ev.call))


# ---------------------------------------------------------------------------
# R6 close exactly once
# ---------------------------------------------------------------------------

# what a handler must name to receive a task cancellation delivered at an
# `await`: asyncio.CancelledError is a BaseException, not an Exception
_CANCEL_CATCHERS = frozenset({
    'builtins.BaseException', 'asyncio.CancelledError', 'asyncio.exceptions.CancelledError',
    'concurrent.futures.CancelledError', 'concurrent.futures._base.CancelledError',
})


def _catches_cancel(p, f: Func, h: ast.ExceptHandler) -> Optional[bool]:
    """True / False / None (a class the checker cannot resolve)"""
    if h.type is None:
        return True
    unknown = False
    for t in (h.type.elts if isinstance(h.type, ast.Tuple) else [h.type]):
        q = p.resolve_expr(f.module, t, f)
        if q in _CANCEL_CATCHERS:
            return True
        if q is None or not (q.startswith('builtins.') or q in p.classes):
            unknown = True
    return None if unknown else False


class _CancelView(ast.NodeTransformer):
    """The function as a task cancellation sees it: a handler that cannot
    receive CancelledError does not exist (`try/except Exception/else` is its
    body followed by its else suite), the first handler that can is a bare
    `except:`, `finally` stays."""

    def __init__(self, p, f: Func, is_loop):
        self.p, self.f, self.is_loop = p, f, is_loop
        self.depth = 0
        self.dropped: List[Tuple[Set[int], str]] = []  # (loops inside the try body, handler that a cancellation passes by)

    def _nested(self, n):
        return n

    visit_FunctionDef = visit_AsyncFunctionDef = visit_Lambda = visit_ClassDef = _nested

    def _loop(self, n):
        inc = 1 if self.is_loop(n) else 0
        self.depth += inc
        n = self.generic_visit(n)
        self.depth -= inc
        return n

    visit_While = visit_For = visit_AsyncFor = _loop

    def visit_Try(self, t):
        inside = {id(x) for s_ in t.body for x in walk_self(s_) if self.is_loop(x)}
        relevant = self.depth > 0 or bool(inside)
        t = self.generic_visit(t)
        kept = None
        for h in t.handlers:
            c = _catches_cancel(self.p, self.f, h)
            if c is None:
                if relevant:
                    raise UnknownIdiom('%s: cannot tell whether `except %s` around the response-stream loop receives a task cancellation'
                                       % (self.f.qual, short(h.type)))
                c = False
            if c:
                kept = h
                break
            if inside:
                self.dropped.append((inside, 'except %s' % short(h.type)))
        if kept is not None:
            kept.type = None
            t.handlers = [kept]
            return t
        if t.finalbody:
            t.body = list(t.body) + list(t.orelse)
            t.orelse = []
            t.handlers = []
            return t
        return list(t.body) + list(t.orelse)

    visit_TryStar = visit_Try


def _stream_loops(f: Func, fnode, is_s):
    def is_loop(n):
        if isinstance(n, (ast.AsyncFor, ast.For)):
            return is_s(n.iter)
        if isinstance(n, ast.While):
            return any(isinstance(c, ast.Call) and isinstance(c.func, ast.Attribute) and c.func.attr in ('read', '__anext__', 'readline')
                       and is_s(c.func.value) for c in walk_self(n))
        return False
    return is_loop, [n for n in walk_self(fnode) if is_loop(n)]


class _CloseIdioms:
    """The ways a function closes a stream and asks whether it can be closed, read alike:
    `S.close()`; `c = S.close` ... `c()` (a local bound to the bound method IS the method);
    `c = getattr(S, 'close', None)` ... `if c is not None / if c:` ... `c()`;  `hasattr(S, 'close')`."""

    def __init__(self, f: Func, is_s):
        self.is_s = is_s

        def bound(e):
            return isinstance(e, ast.Attribute) and e.attr == 'close' and is_s(e.value)

        def got(e):
            return (isinstance(e, ast.Call) and is_name(e.func, 'getattr') and len(e.args) == 3 and not e.keywords and is_s(e.args[0])
                    and isinstance(e.args[1], ast.Constant) and e.args[1].value == 'close'
                    and isinstance(e.args[2], ast.Constant) and e.args[2].value is None)
        self.meth = aliases(f, bound)
        self.opt = aliases(f, got)
        self._got = got

    def is_close_call(self, c) -> bool:
        if not isinstance(c, ast.Call) or c.args or c.keywords:
            return False
        fn = c.func
        if isinstance(fn, ast.Attribute):
            return fn.attr == 'close' and self.is_s(fn.value)
        return isinstance(fn, ast.Name) and (fn.id in self.meth or fn.id in self.opt)

    def benign(self, c) -> bool:
        """a call that mentions the stream without doing anything to it"""
        return self._got(c) or (isinstance(c, ast.Call) and is_name(c.func, 'hasattr'))

    def probe_stmt(self, s) -> bool:
        """`c = getattr(S, 'close', None)` / `c = S.close`: looks the method up, calls nothing (like hasattr(): does not raise
        for a stream that has the method; one that has not has nothing to close)"""
        v = s.value if isinstance(s, (ast.Assign, ast.AnnAssign)) else None
        return v is not None and (self._got(v) or (isinstance(v, ast.Attribute) and v.attr == 'close' and self.is_s(v.value)))

    def atom(self, has: bool):
        """valuation of the tests that ask whether the stream has a close()"""
        is_opt = lambda e: isinstance(e, ast.Name) and e.id in self.opt  # noqa: E731

        def atom(e):
            if isinstance(e, ast.Call) and is_name(e.func, 'hasattr') and len(e.args) == 2 and self.is_s(e.args[0]) \
                    and isinstance(e.args[1], ast.Constant) and e.args[1].value == 'close':
                return has
            pol = none_test(e, is_opt)
            if pol is not None:
                return pol == (not has)
            if is_opt(e):
                return has
            return None
        return atom

    def decides(self, test) -> Optional[bool]:
        """truth of a test for a stream WITHOUT close(), when it is the absence of close() that decides it"""
        v = eval3(test, self.atom(False))
        if v is None or eval3(test, lambda e: None) is not None:
            return None
        return v


def _total_test(e) -> bool:
    """A branch condition that cannot raise: hasattr() of names / constants combined by not / and / or, names, constants,
    identity comparisons of those (`run.assume`: hasattr() on the response stream does not raise)."""
    e = strip_await(e)
    if isinstance(e, (ast.Name, ast.Constant)):
        return True
    if isinstance(e, ast.UnaryOp) and isinstance(e.op, ast.Not):
        return _total_test(e.operand)
    if isinstance(e, ast.BoolOp):
        return all(_total_test(v) for v in e.values)
    if isinstance(e, ast.Compare):
        return all(isinstance(o, (ast.Is, ast.IsNot)) for o in e.ops) and all(_total_test(x) for x in [e.left] + list(e.comparators))
    if isinstance(e, ast.Call) and is_name(e.func, 'hasattr') and len(e.args) == 2 and not e.keywords:
        return all(isinstance(a, (ast.Name, ast.Constant)) for a in e.args)
    return False


def _close_summary(p, f: Func, fnode, call: ast.Call, is_s, depth=0) -> List[str]:
    """Typestate labels of a call that is handed the response stream.  A module-level function / method of the same class
    is read as its body (its parameter standing for the stream): the product of ITS CFG with the same OPEN -> CLOSED
    automaton gives the states it can leave the stream in - on return and on raise.
      closed exactly once on every return, and on every raise    -> '^CLOSE' (as the inline `await stream.close()`)
      closed exactly once on every return, still open on a raise -> 'CLOSE'  (the exceptional edge keeps the stream open)
      never touched                                              -> no event
      closed twice                                               -> two events (the caller's automaton reports it)
    Anything else (closed on some returns only) is not read.  A callee that does not resolve to analysed code (hasattr,
    isasyncgenfunction, ...) does not close anything."""
    t = p.callee(f, call) if p is not None else None
    if not isinstance(t, Func):
        return []
    g = plain_helper(p, f, call)
    bound = bind_args(g, call) if g is not None else None
    if bound is None or depth > 2:
        raise UnknownIdiom('%s: the response stream is handed to %s, which cannot be read as its body' % (f.qual, t.qual))
    params = [k for k, v in bound.items() if is_s(v)]
    if len(params) != 1:
        raise UnknownIdiom('%s: the response stream is handed to %s more than once' % (f.qual, g.qual))
    prm = params[0]
    if any(isinstance(x, ast.Name) and x.id == prm and isinstance(x.ctx, (ast.Store, ast.Del)) for x in ast.walk(g.node)):
        raise UnknownIdiom('%s rebinds its parameter %s' % (g.qual, prm))
    awaited = any(isinstance(x, ast.Await) and x.value is call for x in ast.walk(fnode))
    if g.is_async and not awaited:
        if any(isinstance(x, ast.Expr) and x.value is call for x in ast.walk(fnode)):
            return []           # a coroutine object that is dropped: its body never runs
        raise UnknownIdiom('%s: the coroutine %s is not awaited on the spot' % (f.qual, g.qual))
    if not g.is_async and awaited:
        raise UnknownIdiom('%s: the result of the plain function %s is awaited' % (f.qual, g.qual))
    al = aliases(g, lambda e: is_name(e, prm))
    is_p = lambda e: isinstance(e, ast.Name) and (e.id == prm or e.id in al)  # noqa: E731
    gcfg = cfg_of(g, p)
    gix = Index(gcfg)
    idi = _CloseIdioms(g, is_p)
    labs: Dict[int, List[str]] = {}
    for c in walk_self(g.node):
        if not isinstance(c, ast.Call):
            continue
        if idi.is_close_call(c):
            for nid in gix.nodes_of(c):
                labs.setdefault(nid, []).append('^CLOSE')
        elif idi.benign(c):
            continue
        elif any(is_p(a) for a in c.args) or any(is_p(k.value) for k in c.keywords):
            inner = _close_summary(p, g, g.node, c, is_p, depth + 1)
            for nid in gix.nodes_of(c):
                labs.setdefault(nid, []).extend(inner)
        elif any(is_p(x) for x in ast.walk(c) if x is not c.func):
            raise UnknownIdiom('%s: cannot read what `%s` does with the stream' % (g.qual, short(c)))
    for x in walk_self(g.node):
        if isinstance(x, (ast.Return, ast.Yield, ast.YieldFrom)) and getattr(x, 'value', None) is not None and any(is_p(y) for y in ast.walk(x.value)):
            raise UnknownIdiom('%s hands the stream back to its caller' % g.qual)
        if isinstance(x, (ast.Assign, ast.AnnAssign)) and getattr(x, 'value', None) is not None and is_p(x.value):
            tg = x.targets if isinstance(x, ast.Assign) else [x.target]
            if not all(isinstance(t_, ast.Name) for t_ in tg):
                raise UnknownIdiom('%s stores the stream in %s' % (g.qual, short(x)))

    def delta(st, lab):
        if lab == 'CLOSE':
            return {'OPEN': 'CLOSED'}.get(st, 'TWICE')
        return st

    def edge_delta(st, x, y, l):
        n = gcfg.node(x)
        if n.kind == 'test':
            if l == 'exc' and _total_test(n.ast):
                return None
            # the summary is the one of a stream that HAS a close() (without one there is nothing to close, whatever is done)
            v = eval3(n.ast, idi.atom(True))
            if v is not None and l in ('T', 'F') and (l == 'T') != v:
                return None
        if l == 'exc' and n.kind == 'stmt' and idi.probe_stmt(n.ast):
            return None
        return st

    normal, exceptional = set(), set()
    flow.typestate(gcfg, lambda n: labs.get(n.id, []), delta, 'OPEN', exit_ok=lambda st: normal.add(st) or True,
                   xexit_ok=lambda st: exceptional.add(st) or True, edge_delta=edge_delta)
    if 'TWICE' in normal | exceptional:
        return ['^CLOSE', '^CLOSE']
    if normal == {'CLOSED'} and exceptional <= {'CLOSED'}:
        return ['^CLOSE']
    if normal == {'CLOSED'} and 'OPEN' in exceptional:
        return ['CLOSE']        # (a raise after the close is read as one before it: the open stream is what gets reported)
    if normal <= {'OPEN'} and exceptional <= {'OPEN'}:
        return []
    raise UnknownIdiom('%s: %s closes the stream it is handed on some paths only (returns: %s, raises: %s)'
                       % (f.qual, g.qual, sorted(normal), sorted(exceptional)))


def _close_typestate(f: Func, fnode, cfg, ix: Index, is_s, loops, cancel: bool):
    """[(loop, counterexample | None)]: from each loop header, stream.close()
    runs exactly once before every exit.  cancel=True: `cfg` is the cancel
    view and the only exception that starts an exceptional exit is the one
    delivered at a suspension point (await / async for / async with)."""
    close_nodes = set()
    helper_labels: Dict[int, List[str]] = {}
    idi = _CloseIdioms(f, is_s)
    for c in walk_self(fnode):
        if idi.is_close_call(c):
            close_nodes.update(ix.nodes_of(c))
        elif isinstance(c, ast.Call) and not idi.benign(c) and (any(is_s(a) for a in c.args) or any(is_s(k.value) for k in c.keywords)):
            # the stream is handed to a module-level / same-class helper: the call is what the helper does with it
            labs = _close_summary(cfg.project, f, fnode, c, is_s)
            for nid in ix.nodes_of(c):
                helper_labels.setdefault(nid, []).extend(labs)

    def labels(n):
        return (['^CLOSE'] if n.id in close_nodes else []) + helper_labels.get(n.id, [])

    def delta(st, lab):
        if lab == 'CLOSE':
            return 'CLOSED' + st[4:] if st.startswith('OPEN') else ERROR
        return st

    def edge_delta(st, x, y, l):
        n = cfg.node(x)
        if n.kind == 'test':
            if l == 'exc' and _total_test(n.ast):
                return None  # hasattr() itself does not raise
            v = idi.decides(n.ast)
            if v is not None and l in ('T', 'F') and (l == 'T') == v and st.startswith('OPEN'):
                return 'CLOSED' + st[4:]  # nothing to close
        if l == 'exc' and n.kind == 'stmt' and idi.probe_stmt(n.ast):
            return None
        if cancel and l == 'exc' and not st.endswith('!'):
            if not n.susp:
                return None  # ordinary errors are the subject of the other pass
            return st + '!'  # the cancellation is in flight: from here on every edge is followed
        return st

    out = []
    for lp in loops:
        heads = [i for i in cfg.nodes_for(lp) if cfg.node(i).kind in ('iter', 'test') and not cfg.node(i).copy]
        head = single(heads, 'stream loop header', f.qual)
        closed = lambda st: st.startswith('CLOSED')  # noqa: E731
        cex, _x, _y = flow.typestate(cfg, labels, delta, 'OPEN', start=head, exit_ok=closed, xexit_ok=closed, edge_delta=edge_delta)
        out.append((lp, cex))
    return out


def r6_close(run):
    """ASGI: once a loop pulling from resp.stream is entered, stream.close()
    runs exactly once on every exit - completion, an error of the stream or of
    send(), AND the cancellation of the application task at any await inside
    the loop (asyncio.CancelledError is a BaseException: `finally`,
    `except BaseException`, a bare `except:` or a handler naming CancelledError
    receive it, `except Exception` + `else` does not).
    Runtime witness: the server cancels the app task while it is blocked in
    send() of a body event of a file-like stream -> close() is called 0 times."""
    p = run.project
    a = AsgiCall(run)
    cfg, f, ix = a.cfg, a.f, a.ix
    st_al = aliases(f, lambda e: attr_of(e, a.resp, ('stream',)))
    if not st_al:
        raise AnchorError('%s: %s.stream is not bound to a local' % (f.qual, a.resp))
    is_s = lambda e: isinstance(e, ast.Name) and e.id in st_al  # noqa: E731
    is_loop, loops = _stream_loops(f, f.node, is_s)
    if not loops:
        raise AnchorError('%s: no loop pulling from the response stream' % f.qual)

    def cons_of(lp):
        return 'for ... in %s' % short(lp.iter) if isinstance(lp, (ast.For, ast.AsyncFor)) else 'while %s: ... %s.read()' % (short(lp.test), sorted(st_al)[0])

    what = 'ASGI: once the stream loop is entered, stream.close() runs exactly once on every exit (completion, stream error, send error)'
    for lp, cex in _close_typestate(f, f.node, cfg, ix, is_s, loops, False):
        if cex is None:
            run.ok(what, f.loc(lp), cons_of(lp))
        else:
            path, st, reason = cex
            run.fail(what + ' [%s]' % reason, f, cons_of(lp), where=f.loc(lp), witness=flow.describe_path(cfg, path),
                     runtime_witness='the stream raises (or send fails) mid-way: close() is never called / is called twice')
    # ---- the same, as a task cancellation sees the function
    view = _CancelView(p, f, is_loop)
    node2 = copy.deepcopy(f.node)
    view.generic_visit(node2)
    ast.fix_missing_locations(node2)
    f2 = Func(node2, f.qual, f.module, f.cls, f.parent)
    f2.nested = f.nested
    cfg2 = CFG(f2, p)
    _il, loops2 = _stream_loops(f2, node2, is_s)
    if len(loops2) != len(loops):
        raise UnknownIdiom('%s: the cancellation view of the function lost a response-stream loop' % f.qual)
    what = ('ASGI: stream.close() also runs exactly once when the application task is cancelled at an await inside the stream loop '
            '(the close is reached through finally / except BaseException / bare except, not only through `except Exception` + else)')
    for lp, cex in _close_typestate(f2, node2, cfg2, Index(cfg2), is_s, loops2, True):
        if not any(n.susp for n in (cfg2.node(i) for i in nodes_within(cfg2, [lp]))):
            raise UnknownIdiom('%s: no suspension point inside %s' % (f.qual, cons_of(lp)))
        if cex is None:
            run.ok(what, f.loc(lp), cons_of(lp) + ' [cancelled]')
        else:
            path, st, reason = cex
            by = sorted({t for (ids, t) in view.dropped if id(lp) in ids})
            hint = (' (not receiving a cancellation: %s)' % ', '.join(by)) if by else ''
            run.fail(what + ' [%s]%s' % (reason.replace('!', ''), hint), f, cons_of(lp) + ' [cancelled]', where=f.loc(lp),
                     witness=flow.describe_path(cfg2, path),
                     runtime_witness='file-like resp.stream, the server cancels the app task blocked in send() of a body event '
                                     '(client disconnect / timeout): asyncio.CancelledError is not an Exception, close() is called 0 times')
    # ---- WSGI wrapper
    c = p.cls('falcon.app_helpers.CloseableStreamIterator')
    init = c.methods.get('__init__')
    close = c.methods.get('close')
    nxt = c.methods.get('__next__')
    if init is None or close is None or nxt is None:
        raise AnchorError('CloseableStreamIterator lacks __init__/close/__next__')
    sp = param_at(init, 1, 'stream')
    attrs = [t.attr for n in walk_self(init.node) if isinstance(n, ast.Assign) and is_name(n.value, sp)
             for t in n.targets if isinstance(t, ast.Attribute) and is_name(t.value, 'self')]
    sattr = single(sorted(set(attrs)), 'attribute holding the wrapped stream', init.qual)
    close = inline_view(p, close)
    ccfg = cfg_of(close, p)
    run.use_cfg(ccfg)
    cix = Index(ccfg)
    w_al = aliases(close, lambda e: is_self_attr(e, sattr))        # stream = self._stream: the wrapped stream
    is_wrapped = lambda e: is_self_attr(e, sattr) or (isinstance(e, ast.Name) and e.id in w_al)  # noqa: E731
    cidi = _CloseIdioms(close, is_wrapped)
    ccalls = [x for x in walk_self(close.node) if cidi.is_close_call(x)]
    nodes = [n for x in ccalls for n in cix.nodes_of(x)]
    # (for a stream that has a close(): a hasattr()/getattr(..., None) guard skips the call only when there is nothing to close)
    path = flow.find_path(ccfg, [ccfg.entry], [ccfg.exit], avoid_nodes=nodes, edge_filter=pruned(ccfg, cidi.atom(True), flow.no_exc))
    run.check(bool(nodes) and path is None, 'CloseableStreamIterator.close() closes the wrapped stream on every path', close,
              'self.%s.close()' % sattr, where=close.loc(), runtime_witness='a temp-file response stream is never closed under wsgiref')
    reads = [x for x in walk_self(nxt.node) if isinstance(x, ast.Call) and isinstance(x.func, ast.Attribute) and x.func.attr == 'read'
             and is_self_attr(x.func.value, sattr)]
    run.check(bool(reads), 'CloseableStreamIterator reads from the same stream it closes', nxt, 'self.%s.read(...)' % sattr, where=nxt.loc())
    # exactly once: PEP 3333 obliges the server to call close() on the returned
    # iterable whatever happens, so the wrapper must not close the stream on
    # its own anywhere else (in __next__ on error / at EOF, in __del__ ...):
    # that close plus the server's would be two
    # a private method that only close() calls is a part of close() (it was read there, as its body)
    part_of_close: Set[str] = set()
    for x in walk_self(c.methods['close'].node):
        if isinstance(x, ast.Call) and isinstance(x.func, ast.Attribute) and is_name(x.func.value, 'self') and x.func.attr in c.methods \
                and x.func.attr.startswith('_') and not x.func.attr.startswith('__'):
            nm = x.func.attr
            inside = sum(1 for y in ast.walk(c.methods['close'].node) if isinstance(y, ast.Attribute) and y.attr == nm)
            total = sum(1 for mod in p.modules.values() for y in ast.walk(mod.tree) if isinstance(y, ast.Attribute) and y.attr == nm)
            if inside == total and not any(isinstance(y, ast.Constant) and y.value == nm for mod in p.modules.values() for y in ast.walk(mod.tree)):
                part_of_close.add(nm)
    for mname, m in sorted(c.methods.items()):
        if mname == 'close' or mname in part_of_close:
            continue
        m = inline_view(p, m)
        m_al = aliases(m, lambda e: is_self_attr(e, sattr))
        midi = _CloseIdioms(m, lambda e, m_al=m_al: is_self_attr(e, sattr) or (isinstance(e, ast.Name) and e.id in m_al))
        own = [x for x in walk_self(m.node) if midi.is_close_call(x) or (
            isinstance(x, ast.Call) and isinstance(x.func, ast.Attribute) and x.func.attr == 'close' and is_name(x.func.value, 'self'))]
        run.check(not own, 'CloseableStreamIterator.%s does not close the stream itself (the server calls close() exactly once)' % mname,
                  m, own[0] if own else ('no close in ' + mname), where=m.loc(own[0] if own else None),
                  runtime_witness='file-like resp.stream whose read() raises after streaming began, server without wsgi.file_wrapper: '
                                  'the stream is closed by __next__ and again by the server\'s close()')
    # ---- WSGI _get_body wraps file-likes
    _get_body_wrapping(run, c)


# Callables whose result is a FRESH object that does not forward close() to the iterable it was built from.  PEP 3333
# makes the server call close() on the object the application returned; when that object is one of these, the close()
# of resp.stream is never called.  Frozen, one line of reason per entry; a callable that is not listed is not judged.
_CLOSE_DROPPING: Dict[str, str] = {
    'builtins.iter': 'iter(x) is whatever x.__iter__() returns (or a callable_iterator): for a re-iterable object that is a new '
                     'iterator, which has no close() that reaches x',
    'builtins.map': 'a map object has no close() method',
    'builtins.filter': 'a filter object has no close() method',
    'builtins.zip': 'a zip object has no close() method',
    'builtins.enumerate': 'an enumerate object has no close() method (and yields tuples)',
    'builtins.reversed': 'a reversed object has no close() method',
    'builtins.list': 'a list has no close() method: the stream is drained and never closed',
    'builtins.tuple': 'a tuple has no close() method: the stream is drained and never closed',
    'itertools.chain': 'an itertools.chain object has no close() method',
    'itertools.chain.from_iterable': 'an itertools.chain object has no close() method',
    'itertools.islice': 'an itertools.islice object has no close() method',
}
_COMPREHENSION_REASON = {
    'GeneratorExp': 'a generator expression over the stream: the generator\'s close() finishes the generator, it does not call the '
                    'close() of what it iterates',
    'ListComp': 'a list comprehension over the stream: a list has no close() method',
    'SetComp': 'a set comprehension over the stream: a set has no close() method',
    'DictComp': 'a dict comprehension over the stream: a dict has no close() method',
}


def _close_forwarding(p, c: Class) -> Tuple[bool, str]:
    """Does the package class `c`, constructed around a stream, forward close() to it?  (True, '') when `c.close()`
    calls close() of the attribute its constructor stored the first argument in on every non-exceptional path and no
    other method of the class closes that object; (False, reason) when the class defines no close() or a path through
    close() does not reach the stream's; anything else is not read (UnknownIdiom)."""
    opaque = [b for b in p.mro(c.qual)[1:] if b not in p.classes and b not in ('object', 'builtins.object')]
    close = p.lookup_method(c.qual, 'close')
    init = p.lookup_method(c.qual, '__init__')
    if close is None:
        if opaque:
            raise UnknownIdiom('%s: close() may come from the base %s, which is not read' % (c.qual, opaque[0]))
        return False, '%s defines no close() method' % c.qual
    if init is None:
        raise UnknownIdiom('%s: no __init__ to find the wrapped stream in' % c.qual)
    sp = param_at(init, 1, 'stream')
    attrs = sorted({t.attr for n in walk_self(init.node) if isinstance(n, ast.Assign) and is_name(n.value, sp)
                    for t in n.targets if isinstance(t, ast.Attribute) and is_name(t.value, 'self')})
    if len(attrs) != 1:
        raise UnknownIdiom('%s: the attribute holding the wrapped stream' % init.qual)
    sattr = attrs[0]
    for k in p.mro(c.qual):
        for mname, m in sorted(p.classes[k].methods.items()) if k in p.classes else ():
            if mname in ('close', '__init__'):
                continue
            if any(isinstance(x, ast.Attribute) and x.attr == 'close' for x in walk_self(m.node)) or any(
                    isinstance(x, ast.Constant) and x.value == 'close' for x in walk_self(m.node)):
                raise UnknownIdiom('%s: mentions close outside close() (exactly-once is not read for this wrapper)' % m.qual)
    close = inline_view(p, close)
    ccfg = cfg_of(close, p)
    cix = Index(ccfg)
    w_al = aliases(close, lambda e: is_self_attr(e, sattr))
    cidi = _CloseIdioms(close, lambda e: is_self_attr(e, sattr) or (isinstance(e, ast.Name) and e.id in w_al))
    nodes = [n for x in walk_self(close.node) if cidi.is_close_call(x) for n in cix.nodes_of(x)]
    if not nodes:
        return False, '%s.close() does not call self.%s.close()' % (c.qual, sattr)
    # judged for a stream that HAS a close(): `if hasattr(s, 'close')` / `c = getattr(s, 'close', None); if c is not None`
    # only skip the call for a stream that has nothing to close
    if flow.find_path(ccfg, [ccfg.entry], [ccfg.exit], avoid_nodes=nodes, edge_filter=pruned(ccfg, cidi.atom(True), flow.no_exc)) is not None:
        return False, '%s.close() has a path that does not call self.%s.close()' % (c.qual, sattr)
    return True, ''


def _get_body_wrapping(run, closer: Class):
    """WSGI `_get_body`, decided per PATH of its CFG and not by the shape of
    its statements.  The function is evaluated over the four cells of
    (stream has read()?, server supplied wsgi.file_wrapper?): in each cell the
    branch edges the cell contradicts are pruned, and every value a streamed
    return (`return <X>, None`) can carry along the remaining paths - locals
    through the definitions that reach the return on those paths, conditional
    expressions through the arm the cell selects - must be right for the cell:
      * X is resp.stream itself  -> only in the cells without read()
      * X is the server's file wrapper called on the stream -> only in the
        cell (read(), wrapper supplied)
      * X is CloseableStreamIterator(stream, ...) -> only in the cells with read()
      * X is another wrapper class of the package around the stream -> its close()
        must call the wrapped stream's close() on every path (_close_forwarding)
      * X is built from the stream by a callable of the frozen table
        _CLOSE_DROPPING (iter, map, filter, zip, enumerate, reversed, list, tuple,
        itertools.chain/islice) or by a comprehension / generator expression -> in
        no cell: PEP 3333 has the server call close() on the object the application
        returned, and that fresh object does not forward it to the stream.
        (W: resp.stream is a re-iterable object with its own close(), `iter(stream)`
        is returned: stream.close() is called 0 times.)
      * any other callable is not judged (UnknownIdiom)
    `if c: x = A else: x = B; return x, None`, `x = B; if c: x = A`,
    `if not c: return B, None` + fall-through and `return (A if c else B), None`
    are the same paths.
    Runtime witness: a temp-file resp.stream under a server without
    wsgi.file_wrapper is iterated line by line and never closed."""
    p = run.project
    g = effective_method(p, WSGI_APP, '_get_body')
    gcfg = cfg_of(g, p)
    run.use_cfg(gcfg)
    gix = Index(gcfg)
    resp = param_at(g, 1, 'resp')
    wrapper = param_at(g, 2, 'wsgi_file_wrapper')
    s_al = aliases(g, lambda e: attr_of(e, resp, ('stream',)))

    def is_gs(e):
        return (isinstance(e, ast.Name) and e.id in s_al) or attr_of(e, resp, ('stream',))

    def is_filelike(e):
        return (isinstance(e, ast.Call) and is_name(e.func, 'hasattr') and len(e.args) == 2 and is_gs(e.args[0])
                and isinstance(e.args[1], ast.Constant) and e.args[1].value == 'read')

    is_w = lambda e: is_name(e, wrapper)  # noqa: E731
    for n in walk_self(g.node):
        if isinstance(n, ast.Name) and n.id == wrapper and isinstance(n.ctx, (ast.Store, ast.Del)):
            raise UnknownIdiom('%s: the parameter %s is rebound' % (g.qual, wrapper))
    from .c04_helpers import defined_names
    def_nodes: Dict[str, Set[int]] = {}
    for n in gcfg.live_nodes():
        for nm in defined_names(n):
            def_nodes.setdefault(nm, set()).add(n.id)

    def cell_atom(fl: bool, wp: bool):
        def atom(e):
            if is_filelike(e):
                return fl
            pol = none_test(e, is_w)
            if pol is not None:
                return pol == (not wp)
            if is_w(e):
                return wp       # a supplied wrapper is a callable object: truthy
            return None
        return atom

    def stream_arg(call, t) -> bool:
        """the stream is the wrapped object (first positional argument, or the
        keyword naming the first parameter of a resolved constructor)"""
        if call.args:
            return is_gs(call.args[0])
        if isinstance(t, Class):
            init = effective_method(p, t.qual, '__init__')
            first = param_at(init, 1, 'wrapped stream')
            for kw in call.keywords:
                if kw.arg == first:
                    return is_gs(kw.value)
        return False

    what_plain = 'WSGI _get_body: only a stream without read() is returned as it is'
    what_wrap = ('WSGI _get_body: a file-like stream is wrapped by the server file wrapper or CloseableStreamIterator '
                 '(both close it)')
    what_present = 'WSGI _get_body: the server file wrapper is called only when the server supplied one'
    what_keep = ('WSGI _get_body: the object returned to the server for a stream is the stream itself or a wrapper whose '
                 'close() closes it (PEP 3333: the server calls close() on the object the application returned)')
    cell_text = lambda fl, wp: '%s stream, server %s wsgi.file_wrapper' % (  # noqa: E731
        'file-like' if fl else 'iterable (no read())', 'with' if wp else 'without')
    verdicts: Dict[Tuple[str, int], List] = {}     # (what, defining node) -> [ok in every cell, cells where not]

    def note(what, d, ok, fl, wp):
        v = verdicts.setdefault((what, d), [True, []])
        if not ok:
            v[0] = False
            v[1].append(cell_text(fl, wp))

    reasons: Dict[Tuple[str, int], str] = {}
    forwards: Dict[str, Tuple[bool, str]] = {}

    def dropped(d, reason, fl, wp):
        """the object handed to the server is a fresh one whose close() (if it has one) does not reach the stream"""
        what = what_wrap if fl else what_keep
        note(what, d, False, fl, wp)
        reasons[(what, d)] = reason

    rets = []
    for r in [n for n in gcfg.live_nodes() if n.kind == 'stmt' and isinstance(n.ast, ast.Return)]:
        v = r.ast.value
        if isinstance(v, ast.Tuple) and len(v.elts) == 2 and isinstance(v.elts[1], ast.Constant) and v.elts[1].value is None:
            rets.append(r)
    if not rets:
        raise AnchorError('%s: no streamed return found' % g.qual)
    for fl in (True, False):
        for wp in (True, False):
            atom = cell_atom(fl, wp)
            filt = pruned(gcfg, atom, flow.no_exc)
            live = flow.reachable(gcfg, [gcfg.entry], edge_filter=filt)

            def values(e, nid, depth=0):
                """[(leaf expression, id of the node that holds it)] on the paths of this cell"""
                if depth > 6:
                    raise UnknownIdiom('%s: definition chain of the streamed iterable is too long' % g.qual)
                if is_gs(e):
                    return [(e, nid)]
                if isinstance(e, ast.IfExp):
                    t = eval3(e.test, atom)
                    out = []
                    if t is not False:
                        out += values(e.body, nid, depth + 1)
                    if t is not True:
                        out += values(e.orelse, nid, depth + 1)
                    return out
                if isinstance(e, ast.Name):
                    out = []
                    n_defs = 0
                    for d in gix.defs_reaching(nid, e.id):
                        others = def_nodes.get(e.id, set()) - {d}
                        if d not in live:
                            continue
                        starts = [y for (y, l) in gcfg.succ[d] if filt(d, y, l) and y not in others]
                        if nid not in starts and flow.find_path(gcfg, starts, [nid], avoid_nodes=others, edge_filter=filt) is None:
                            continue    # overwritten, or cut off by the cell, before it gets here
                        n_defs += 1
                        dv = def_value(gcfg, d, e.id)
                        if dv[0] != 'expr' or dv[1] is None:
                            raise UnknownIdiom('%s: definition of %s' % (g.qual, e.id))
                        out.extend(values(dv[1], d, depth + 1))
                    if not n_defs:
                        raise UnknownIdiom('%s: %s has no definition reaching the streamed return' % (g.qual, e.id))
                    return out
                return [(e, nid)]

            for r in rets:
                if r.id not in live:
                    continue
                for (e, d) in values(r.ast.value.elts[0], r.id):
                    if is_gs(e):
                        note(what_plain, d, not fl, fl, wp)
                        continue
                    if not any(is_gs(x) for x in ast.walk(e)):
                        raise UnknownIdiom('%s: streamed iterable %s does not come from %s.stream' % (g.qual, short(e), resp))
                    if isinstance(e, (ast.GeneratorExp, ast.ListComp, ast.SetComp, ast.DictComp)):
                        dropped(d, _COMPREHENSION_REASON[type(e).__name__], fl, wp)
                        continue
                    if not isinstance(e, ast.Call):
                        raise UnknownIdiom('%s: streamed iterable %s' % (g.qual, short(e)))
                    if is_w(e.func):
                        note(what_wrap, d, stream_arg(e, None) and fl, fl, wp)
                        note(what_present, d, wp, fl, wp)
                        continue
                    t = p.callee(g, e)
                    if isinstance(t, Class) and t.qual == closer.qual:
                        note(what_wrap, d, stream_arg(e, t) and fl, fl, wp)
                    elif isinstance(t, str) and t in _CLOSE_DROPPING:
                        dropped(d, 'built by %s: %s' % (short(e.func), _CLOSE_DROPPING[t]), fl, wp)
                    elif isinstance(t, str) and t.startswith('builtins.') and fl:
                        # iter(lambda: stream.read(n), b''), map(...), ...: no builtin closes what it iterates
                        note(what_wrap, d, False, fl, wp)
                    elif isinstance(t, Class) and t.qual.startswith('falcon.'):
                        # another wrapper class of the package: read its close()
                        if t.qual not in forwards:
                            forwards[t.qual] = _close_forwarding(p, t)
                        ok, why = forwards[t.qual]
                        if ok and not stream_arg(e, t):
                            raise UnknownIdiom('%s: %s is not handed the stream as the object it wraps' % (g.qual, short(e)))
                        if ok:
                            note(what_wrap if fl else what_keep, d, True, fl, wp)
                        else:
                            dropped(d, 'built by %s: %s' % (short(e.func), why), fl, wp)
                    else:
                        raise UnknownIdiom('%s: streamed iterable built by %s (not the server file wrapper, not %s)'
                                           % (g.qual, short(e.func), closer.qual))
    if not verdicts:
        raise AnchorError('%s: no streamed return is reachable' % g.qual)
    for (what, d), (ok, cells) in sorted(verdicts.items(), key=lambda kv: (kv[0][1], kv[0][0])):
        rw = {what_plain: 'a file-like stream is iterated line by line instead of in blocks and is not closed through our wrapper',
              what_wrap: 'the response stream is never closed',
              what_keep: 'resp.stream is a re-iterable object with its own close() (its __iter__ hands out a fresh iterator): the server '
                         'closes the object it was given, the stream\'s close() is called 0 times whether streaming completes, the '
                         'stream raises or the server\'s write fails',
              what_present: 'file-like resp.stream under a server without wsgi.file_wrapper: None(stream, size) -> TypeError, 500'}[what]
        why = reasons.get((what, d))
        run.check(ok, what, g, gcfg.node(d).ast, where='%s:%s' % (g.file, gcfg.node(d).lineno),
                  witness=(([why] if why and not ok else []) + ['wrong for: ' + c for c in cells]) or None,
                  runtime_witness=rw + (' [%s]' % '; '.join(cells) if cells else ''))


# ---------------------------------------------------------------------------
# R7 SSE framing and status normalisation
# ---------------------------------------------------------------------------

# An event text is read as an ORDERED SEQUENCE OF PIECES, whatever holds it while it is put together: a str local
# extended with `+=` / `x = x + ...`, or a list local extended with append()/extend()/`+= [...]` and materialised by
# `''.join(parts)`.  Abstract value of a text: (has, only_nl, tnl, exact)
#   has     'E' certainly empty | 'N' certainly not empty | '?'           (what a truthiness test of it sees)
#   only_nl it consists of newlines only (vacuously true for the empty text)
#   tnl     number of newlines it certainly ends with, capped at 2
#   exact   tnl is the exact count (capped); False: an opaque value decides the tail
_T_EMPTY = ('E', True, 0, True)
_T_OPAQUE = ('?', False, 0, False)
# a formatted field inside an f-string: an SSE field value is a single line (documented), it contributes no trailing newline
_T_FIELD = ('?', False, 0, True)


def _t_const(s) -> tuple:
    if isinstance(s, bytes):
        s = s.decode('latin-1')
    if s == '':
        return _T_EMPTY
    k = len(s) - len(s.rstrip('\n'))
    return ('N', s.strip('\n') == '', min(2, k), True)


def _t_cat(a: tuple, b: tuple) -> tuple:
    ah, ao, at, ax = a
    bh, bo, bt, bx = b
    has = 'N' if 'N' in (ah, bh) else ('E' if ah == bh == 'E' else '?')
    if bh == 'E':
        return (has, ao, at, ax)
    if bh == 'N' and bo:
        t = min(2, at + bt)
        return (has, ao, t, ax or t >= 2)
    if bh == 'N':
        return (has, False, bt, bx)
    # b may be empty: the tail is b's or a's
    t = min(at, bt)
    return (has, ao and bo, t, ax and bx and at == bt)


def _text_accumulators(f: Func) -> Tuple[Set[str], Set[str]]:
    """(str accumulators, list accumulators) of f: locals a text is put together in."""
    strs: Set[str] = set()
    lists: Set[str] = set()
    params = set(f.params())
    for n in walk_self(f.node):
        if isinstance(n, ast.AugAssign) and isinstance(n.target, ast.Name) and isinstance(n.op, ast.Add) and not isinstance(n.value, (ast.List, ast.Tuple)):
            strs.add(n.target.id)
        elif isinstance(n, ast.Assign):
            for t in n.targets:
                if isinstance(t, ast.Name) and any(is_name(y, t.id) for y in ast.walk(n.value)):
                    strs.add(t.id)          # x = x + ...
        elif isinstance(n, ast.Call) and isinstance(n.func, ast.Attribute) and n.func.attr in ('append', 'extend') and isinstance(n.func.value, ast.Name):
            lists.add(n.func.value.id)
    # a list accumulator is bound to a list display / list() / an annotated empty list
    ok = set()
    for n in walk_self(f.node):
        tg, v = None, None
        if isinstance(n, ast.Assign) and len(n.targets) == 1:
            tg, v = n.targets[0], n.value
        elif isinstance(n, ast.AnnAssign):
            tg, v = n.target, n.value
        if isinstance(tg, ast.Name) and tg.id in lists and v is not None:
            if isinstance(v, ast.List) or (isinstance(v, ast.Call) and is_name(v.func, 'list') and not v.args and not v.keywords):
                ok.add(tg.id)
    lists = {x for x in lists & ok if x not in params}
    strs = {x for x in strs if x not in params and x not in lists}
    # a local computed from an accumulator (`text = ''.join(parts)`) carries the event text on
    changed = True
    while changed:
        changed = False
        for n in walk_self(f.node):
            if isinstance(n, (ast.Assign, ast.AnnAssign)) and getattr(n, 'value', None) is not None:
                tg = n.targets if isinstance(n, ast.Assign) else [n.target]
                if any(isinstance(y, ast.Name) and y.id in strs | lists for y in ast.walk(n.value)):
                    for t in tg:
                        if isinstance(t, ast.Name) and t.id not in strs and t.id not in lists and t.id not in params:
                            strs.add(t.id)
                            changed = True
    return strs, lists


def _sse(run):
    """SSEvent.serialize: every returned event ends with a blank line.  The event text is evaluated as an ordered sequence
    of pieces over the CFG (typestate: per accumulator the emptiness a test of it sees and the number of newlines the text
    certainly ends with); `block += piece` and `parts.append(piece)` ... `''.join(parts)` are the same abstract text.
    Every `return` must hand back bytes that end with two newlines.
    W: two consecutive events are merged by the client-side parser."""
    p = run.project
    f = p.func('falcon.asgi.structures.SSEvent.serialize')
    cfg = cfg_of(f, p)
    run.use_cfg(cfg)
    rets = [n for n in cfg.live_nodes() if n.kind == 'stmt' and isinstance(n.ast, ast.Return)]
    if not rets:
        raise AnchorError('%s: no return' % f.qual)
    strs, lists = _text_accumulators(f)
    accs = sorted(strs | lists)
    if not accs:
        raise AnchorError('%s: no local in which the event text is put together (str extended with += / list of pieces joined) was found' % f.qual)
    ob = {k: v for k, v in once_bound(f).items() if k not in strs and k not in lists}

    def enc(S: Dict[str, Optional[tuple]]) -> str:
        return ';'.join('%s=%s' % (k, 'U' if S[k] is None else '%s%d%s' % (S[k][0], S[k][2], 'x' if S[k][3] else '~')) for k in accs)

    def dec(st: str) -> Dict[str, Optional[tuple]]:
        out: Dict[str, Optional[tuple]] = {}
        for item in st.split(';'):
            k, _, v = item.partition('=')
            out[k] = None if v == 'U' else (v[0], v[0] == 'E', int(v[1]), v[2] == 'x')
        return out

    def acc_value(S, name):
        v = S.get(name)
        return _T_OPAQUE if v is None else v

    def text(e, S, depth=0) -> tuple:
        """abstract value of a str / bytes expression in state S"""
        e = strip_await(e)
        if depth > 8:
            return _T_OPAQUE
        if isinstance(e, ast.Constant) and isinstance(e.value, (str, bytes)):
            return _t_const(e.value)
        if isinstance(e, ast.JoinedStr):
            out = _T_EMPTY
            for x in e.values:
                out = _t_cat(out, _t_const(x.value) if isinstance(x, ast.Constant) and isinstance(x.value, str) else _T_FIELD)
            return out
        if isinstance(e, ast.BinOp) and isinstance(e.op, ast.Add):
            return _t_cat(text(e.left, S, depth + 1), text(e.right, S, depth + 1))
        if isinstance(e, ast.IfExp):
            a, b = text(e.body, S, depth + 1), text(e.orelse, S, depth + 1)
            if a == b:
                return a
            return ('N' if a[0] == b[0] == 'N' else ('E' if a[0] == b[0] == 'E' else '?'), a[1] and b[1], min(a[2], b[2]), a[3] and b[3] and a[2] == b[2])
        if isinstance(e, ast.Name):
            if e.id in strs:
                return acc_value(S, e.id)
            if e.id in lists:
                raise UnknownIdiom('%s: the list of pieces %s is used as a text in %s' % (f.qual, e.id, short(e)))
            if e.id in ob:
                return text(ob[e.id], S, depth + 1)
            v = p.fold(f.module, e, f.cls, f)
            return _t_const(v) if isinstance(v, (str, bytes)) else _T_OPAQUE
        if isinstance(e, ast.Call) and isinstance(e.func, ast.Attribute):
            fn = e.func
            if fn.attr in ('encode', 'decode'):
                return text(fn.value, S, depth + 1)
            if fn.attr == 'join' and len(e.args) == 1 and not e.keywords:
                sep = p.fold(f.module, fn.value, f.cls, f)
                a0 = e.args[0]
                if isinstance(a0, ast.Name) and a0.id in lists:
                    if sep not in ('', b''):
                        raise UnknownIdiom('%s: the pieces of the event text are joined with %s' % (f.qual, short(fn.value)))
                    return acc_value(S, a0.id)
                if isinstance(a0, (ast.List, ast.Tuple)) and sep in ('', b'') and not any(isinstance(x, ast.Starred) for x in a0.elts):
                    out = _T_EMPTY
                    for x in a0.elts:
                        out = _t_cat(out, text(x, S, depth + 1))
                    return out
        if isinstance(e, ast.Call) and is_name(e.func, 'bytes') and e.args:
            return text(e.args[0], S, depth + 1)
        if isinstance(e, ast.Attribute) and is_name(e.value, 'self'):
            return _T_FIELD            # a field of the event concatenated as it is: as in an f-string
        if isinstance(e, ast.Call) and is_name(e.func, 'str') and len(e.args) == 1 and not e.keywords:
            return _T_FIELD
        if any(isinstance(x, ast.Name) and x.id in lists for x in ast.walk(e)):
            raise UnknownIdiom('%s: cannot read how `%s` uses the list of pieces' % (f.qual, short(e)))
        return _T_OPAQUE

    def pieces(display, S) -> tuple:
        out = _T_EMPTY
        for x in display.elts:
            if isinstance(x, ast.Starred):
                raise UnknownIdiom('%s: starred piece in %s' % (f.qual, short(display)))
            out = _t_cat(out, text(x, S))
        # a list with an element is truthy whatever the element is
        return (('N' if display.elts else 'E'),) + out[1:]

    ops: List = []

    def op(fn) -> str:
        ops.append(fn)
        return 'OP:%d' % (len(ops) - 1)

    def set_acc(name, value):
        def run_(S):
            S = dict(S)
            if name in lists:
                if isinstance(value, ast.List):
                    S[name] = pieces(value, S)
                elif isinstance(value, ast.Call) and is_name(value.func, 'list') and not value.args:
                    S[name] = _T_EMPTY
                else:
                    raise UnknownIdiom('%s: the list of pieces %s is bound to %s' % (f.qual, name, short(value)))
            else:
                S[name] = text(value, S)
            return S
        return run_

    def app_acc(name, value, many=False):
        def run_(S):
            S = dict(S)
            cur = acc_value(S, name)
            if name in lists:
                if many:
                    if not isinstance(value, (ast.List, ast.Tuple)):
                        raise UnknownIdiom('%s: %s is extended with %s' % (f.qual, name, short(value)))
                    add = pieces(value, S)
                    new = _t_cat(cur, add)
                    S[name] = (('N' if value.elts else cur[0]),) + new[1:]
                else:
                    new = _t_cat(cur, text(value, S))
                    S[name] = ('N',) + new[1:]
            else:
                S[name] = _t_cat(cur, text(value, S))
            return S
        return run_

    def ret(value, node):
        def run_(S):
            if value is None:
                return ERROR
            v = text(value, S)
            if v[2] >= 2:
                return S
            if not v[3]:
                # after an opaque value whether a blank line results is not decidable here
                raise UnknownIdiom('%s: cannot tell how `%s` ends' % (f.qual, short(node)))
            return ERROR
        return run_

    label_cache: Dict[int, List[str]] = {}

    def labels(n):
        if n.id in label_cache:
            return label_cache[n.id]
        out = []
        if n.kind == 'stmt':
            a = n.ast
            if isinstance(a, (ast.Assign, ast.AnnAssign)) and a.value is not None:
                tg = a.targets if isinstance(a, ast.Assign) else [a.target]
                for t in tg:
                    if isinstance(t, ast.Name) and t.id in strs | lists:
                        out.append(op(set_acc(t.id, a.value)))
                    elif any(isinstance(x, ast.Name) and x.id in strs | lists for x in ast.walk(t)):
                        raise UnknownIdiom('%s: %s' % (f.qual, short(a)))
            elif isinstance(a, ast.AugAssign) and isinstance(a.target, ast.Name) and a.target.id in strs | lists:
                if not isinstance(a.op, ast.Add):
                    raise UnknownIdiom('%s: %s' % (f.qual, short(a)))
                out.append(op(app_acc(a.target.id, a.value, many=a.target.id in lists)))
            elif isinstance(a, ast.Expr) and isinstance(a.value, ast.Call) and isinstance(a.value.func, ast.Attribute) \
                    and isinstance(a.value.func.value, ast.Name) and a.value.func.value.id in lists:
                c = a.value
                if c.func.attr == 'append' and len(c.args) == 1 and not c.keywords:
                    out.append(op(app_acc(c.func.value.id, c.args[0])))
                elif c.func.attr == 'extend' and len(c.args) == 1 and not c.keywords:
                    out.append(op(app_acc(c.func.value.id, c.args[0], many=True)))
                else:
                    raise UnknownIdiom('%s: the list of pieces is modified by %s' % (f.qual, short(a)))
            elif isinstance(a, ast.Return):
                out.append(op(ret(a.value, a)))
            elif any(isinstance(x, ast.Name) and x.id in lists for x in n.walk()):
                raise UnknownIdiom('%s: cannot read how `%s` uses the list of pieces' % (f.qual, short(a)))
        label_cache[n.id] = out
        return out

    def delta(st, lab):
        S = ops[int(lab.partition(':')[2])](dec(st))
        return ERROR if S is ERROR else enc(S)

    def has_atom(S, unknown_as: str):
        def has_of(e) -> Optional[str]:
            if isinstance(e, ast.Name) and e.id in strs | lists:
                h = acc_value(S, e.id)[0]
                return unknown_as if h == '?' else h
            return None

        def atom(e):
            h = has_of(e)
            if h is not None:
                return h == 'N'
            if isinstance(e, ast.Compare) and len(e.ops) == 1:
                l, r, o = e.left, e.comparators[0], e.ops[0]
                # <str acc> == '' / != ''   <list acc> == [] / != []
                if has_of(l) is not None and ((isinstance(r, ast.Constant) and r.value in ('', b'')) or (isinstance(r, (ast.List, ast.Tuple)) and not r.elts)):
                    if isinstance(o, ast.Eq):
                        return has_of(l) == 'E'
                    if isinstance(o, ast.NotEq):
                        return has_of(l) == 'N'
                # len(acc) == 0 / != 0 / > 0 / >= 1 / < 1
                if isinstance(l, ast.Call) and is_name(l.func, 'len') and len(l.args) == 1 and has_of(l.args[0]) is not None \
                        and isinstance(r, ast.Constant) and r.value in (0, 1):
                    nonempty = has_of(l.args[0]) == 'N'
                    table = {(ast.Eq, 0): not nonempty, (ast.NotEq, 0): nonempty, (ast.Gt, 0): nonempty, (ast.GtE, 1): nonempty,
                             (ast.Lt, 1): not nonempty, (ast.LtE, 0): not nonempty}
                    return table.get((type(o), r.value))
            if isinstance(e, ast.Call) and is_name(e.func, 'len') and len(e.args) == 1 and has_of(e.args[0]) is not None:
                return has_of(e.args[0]) == 'N'
            if isinstance(e, ast.Call) and is_name(e.func, 'bool') and len(e.args) == 1 and has_of(e.args[0]) is not None:
                return has_of(e.args[0]) == 'N'
            return None
        return atom

    def edge_delta(st, x, y, l):
        n = cfg.node(x)
        if n.kind == 'test' and l in ('T', 'F'):
            if not mentions(n.ast, lambda e: isinstance(e, ast.Name) and e.id in strs | lists):
                return st
            S = dec(st)
            v1, v2 = eval3(n.ast, has_atom(S, 'N')), eval3(n.ast, has_atom(S, 'E'))
            if v1 is None and v2 is None:
                raise UnknownIdiom('%s: test of the event text %s' % (f.qual, short(n.ast)))
            if v1 is not None and v1 == v2 and v1 != (l == 'T'):
                return None
        return st

    cex, nst, _t = flow.typestate(cfg, labels, delta, enc({k: None for k in accs}), edge_delta=edge_delta)
    run.extra['c05_r7_sse_text'] = {'str_accumulators': sorted(strs), 'list_accumulators': sorted(lists), 'states': nst}
    what = 'SSEvent.serialize: every returned event ends with a blank line (\\n\\n)'
    if cex is None:
        for r in rets:
            run.ok(what, '%s:%s' % (f.file, r.lineno), r.ast)
    else:
        path, st, reason = cex
        bad = cfg.node(path[-1])
        run.fail(what, f, bad.ast if bad.ast is not None else bad.text(), where='%s:%s' % (f.file, bad.lineno),
                 witness=flow.describe_path(cfg, path), runtime_witness='two consecutive events are merged by the client-side parser')


# --- payload precedence of an event -------------------------------------------------------------------------------
SSE_EVENT = 'falcon.asgi.structures.SSEvent'
# SSEvent class docstring, "Keyword Args": data "Takes precedence over both `text` and `json`", text "Takes precedence over
# `json`" (the attribute docstrings repeat it) -- the counterpart of text > data > media for a plain response (R3)
SSE_PAYLOAD_ORDER = ('data', 'text', 'json')
_ABSENT, _EMPTY, _FULL = 'None', 'empty (falsy, not None)', 'truthy'
_DOC_ENTRY = re.compile(r'^\s*(\w+) \([^)]*\):', re.M)
_DOC_PRECEDES = re.compile(r'Takes\s+precedence\s+over\s+([^.]*)\.', re.S)


def _documented_precedence(cls: Class) -> List[Tuple[str, str]]:
    """(a, b) pairs "a takes precedence over b" stated by the class docstring (stated belief; the table must agree)."""
    doc = ast.get_docstring(cls.node) or ''
    entries = [(m.group(1), m.start(), m.end()) for m in _DOC_ENTRY.finditer(doc)]
    pairs = []
    for i, (name, _s, e) in enumerate(entries):
        if name not in SSE_PAYLOAD_ORDER:
            continue
        body = doc[e: entries[i + 1][1] if i + 1 < len(entries) else len(doc)]
        for m in _DOC_PRECEDES.finditer(body):
            for other in re.findall(r'`+(\w+)`+', m.group(1)):
                if other in SSE_PAYLOAD_ORDER:
                    pairs.append((name, other))
    return pairs


def _sse_precedence(run):
    """SSEvent.serialize carries the FIRST payload attribute that is not None in the documented order data > text > json, and
    only that one.  Decided by abstract evaluation over the presence partition {None, empty, truthy}^3 of the three
    attributes: for every cell the branch tests are evaluated (`x is None`, truthiness, not/and/or; copies through locals),
    the infeasible edges pruned, and the statements that put a payload attribute into the event (into the accumulated text
    or a returned value, directly or through a local computed from it) are collected on what remains: they mention the
    expected attribute only, and every path to a return passes one.  A test of the payload the cell does not decide is only
    an analysis error when the verdict depends on it.
    W: SSEvent(data=b'raw', text='t') with the text branch tested first: the client receives 'data: t'."""
    p = run.project
    cls = p.cls(SSE_EVENT)
    order = SSE_PAYLOAD_ORDER
    for a, b in _documented_precedence(cls):
        if order.index(a) > order.index(b):
            raise AnchorError('%s: the class docstring now says %s takes precedence over %s; the table SSE_PAYLOAD_ORDER is stale' % (cls.qual, a, b))
    f = p.func(SSE_EVENT + '.serialize')
    cfg = cfg_of(f, p)
    run.use_cfg(cfg)
    al = {k: aliases(f, lambda e, k=k: attr_of(e, 'self', (k,))) for k in order}

    def src_of(e) -> Optional[str]:
        for k in order:
            if attr_of(e, 'self', (k,)) or (isinstance(e, ast.Name) and isinstance(e.ctx, ast.Load) and e.id in al[k]):
                return k
        return None

    for k in order:
        if not any(src_of(x) == k for x in walk_self(f.node)):
            raise AnchorError('%s never reads self.%s' % (f.qual, k))
    # accumulators (locals that are appended to) and locals computed from a payload attribute
    accs = {n.target.id for n in walk_self(f.node) if isinstance(n, ast.AugAssign) and isinstance(n.target, ast.Name)}
    accs |= {t.id for n in walk_self(f.node) if isinstance(n, ast.Assign) for t in n.targets            # x = x + ...
             if isinstance(t, ast.Name) and any(is_name(y, t.id) for y in ast.walk(n.value))}
    # ... and the lists of pieces (append / extend, joined at the end): the same accumulated text
    _strs, list_accs = _text_accumulators(f)
    accs |= list_accs
    derived: Dict[str, Set[str]] = {}

    def sources(e, skip_accs=True) -> Set[str]:
        out: Set[str] = set()
        for x in walk_self(e):
            k = src_of(x)
            if k is not None:
                out.add(k)
            elif isinstance(x, ast.Name) and isinstance(x.ctx, ast.Load) and x.id in derived and not (skip_accs and x.id in accs):
                out |= derived[x.id]
        return out

    def is_alias_def(a) -> bool:
        return isinstance(a, ast.Assign) and all(isinstance(t, ast.Name) for t in a.targets) and src_of(a.value) is not None \
            and not isinstance(a.value, ast.Name)

    changed = True
    while changed:
        changed = False
        for n in walk_self(f.node):
            if isinstance(n, (ast.Assign, ast.AnnAssign)) and getattr(n, 'value', None) is not None and not is_alias_def(n):
                tg = n.targets if isinstance(n, ast.Assign) else [n.target]
                got = sources(n.value)
                for t in tg:
                    for x in ast.walk(t):
                        if isinstance(x, ast.Name) and x.id not in accs and got - derived.get(x.id, set()):
                            derived.setdefault(x.id, set()).update(got)
                            changed = True
    # classify every non-test node that mentions a payload attribute
    emits: Dict[int, Set[str]] = {}
    for n in cfg.live_nodes():
        if n.kind in ('entry', 'exit', 'xexit', 'join', 'test'):
            continue
        got: Set[str] = set()
        for root in n.own():
            got |= sources(root)
        if not got:
            continue
        a = n.ast if n.kind == 'stmt' else None
        if a is not None and is_alias_def(a):
            continue
        if isinstance(a, (ast.Assign, ast.AnnAssign)) and all(isinstance(t, ast.Name) for t in (a.targets if isinstance(a, ast.Assign) else [a.target])):
            names = {t.id for t in (a.targets if isinstance(a, ast.Assign) else [a.target])}
            if names & accs:
                emits[n.id] = got            # the accumulated text is (re)started with the payload
            continue                          # a local computed from the payload: judged where it is emitted
        if isinstance(a, ast.AugAssign) and isinstance(a.target, ast.Name):
            emits[n.id] = got
            continue
        if isinstance(a, ast.Expr) and isinstance(a.value, ast.Call) and isinstance(a.value.func, ast.Attribute) \
                and a.value.func.attr in ('append', 'extend', 'insert') and isinstance(a.value.func.value, ast.Name) and a.value.func.value.id in list_accs:
            emits[n.id] = got            # a piece of the accumulated text
            continue
        if isinstance(a, ast.Return):
            emits[n.id] = got
            continue
        raise UnknownIdiom('%s: cannot read how `%s` uses the event payload' % (f.qual, short(n.ast if n.ast is not None else n.text(), 70)))
    if not emits:
        raise AnchorError('%s: no statement puts a payload attribute into the event' % f.qual)
    dep_names = set(accs) | set(derived)

    def dependent(test) -> bool:
        return any(src_of(x) is not None or (isinstance(x, ast.Name) and x.id in dep_names) for x in walk_self(test))

    tests = [n for n in cfg.live_nodes() if n.kind == 'test']
    results: Dict[Optional[str], list] = {k: [] for k in order + (None,)}
    undecided_msgs = []
    for cd in (_FULL, _EMPTY, _ABSENT):
        for ct in (_FULL, _EMPTY, _ABSENT):
            for cj in (_FULL, _EMPTY, _ABSENT):
                cell = dict(zip(order, (cd, ct, cj)))
                expected = next((k for k in order if cell[k] != _ABSENT), None)

                def atom(e, cell=cell):
                    k = src_of(e)
                    if k is not None:
                        return cell[k] == _FULL
                    for k in order:
                        pol = none_test(e, lambda x, k=k: src_of(x) == k)
                        if pol is not None:
                            return pol == (cell[k] == _ABSENT)
                    return None
                filt = pruned(cfg, atom, flow.no_exc)
                unsure = [(t.id, y, l) for t in tests if eval3(t.ast, atom) is None and dependent(t.ast) for (y, l) in cfg.succ[t.id] if l in ('T', 'F')]
                sure = flow.reachable(cfg, [cfg.entry], avoid_edges=unsure, edge_filter=filt)
                maybe = flow.reachable(cfg, [cfg.entry], edge_filter=filt)
                label = ', '.join('%s %s' % (k, cell[k]) for k in order)
                bad = None
                for nid in sorted(emits, key=lambda i: cfg.node(i).lineno):
                    wrong = sorted(emits[nid] - ({expected} if expected else set()))
                    if not wrong:
                        continue
                    if nid in sure:
                        bad = bad or (nid, 'carries %s' % '/'.join(wrong), flow.find_path(cfg, [cfg.entry], [nid], avoid_edges=unsure, edge_filter=filt))
                    elif nid in maybe:
                        undecided_msgs.append('%s: for an event with %s, whether `%s` runs depends on `%s`' % (
                            f.qual, label, short(cfg.node(nid).ast, 60), short(cfg.node(unsure[0][0]).ast, 50)))
                if bad is None and expected is not None:
                    good = [nid for nid in emits if emits[nid] == {expected}]
                    path = flow.find_path(cfg, [cfg.entry], [cfg.exit], avoid_nodes=good, avoid_edges=unsure, edge_filter=filt)
                    if path is None and not any(g in maybe for g in good):
                        # whatever the undecided tests say, no statement that carries the expected attribute can run
                        path = flow.find_path(cfg, [cfg.entry], [cfg.exit], edge_filter=filt)
                    if path is not None:
                        rets = [i for i in path if cfg.node(i).kind == 'stmt' and isinstance(cfg.node(i).ast, ast.Return)]
                        bad = (rets[-1] if rets else path[-1], 'does not carry %s' % expected, path)
                    elif flow.find_path(cfg, [cfg.entry], [cfg.exit], avoid_nodes=good, edge_filter=filt) is not None:
                        undecided_msgs.append('%s: for an event with %s, whether %s is emitted depends on `%s`' % (
                            f.qual, label, expected, short(cfg.node(unsure[0][0]).ast, 50)))
                results[expected].append((label, bad, cell))
    for expected in order + (None,):
        what = ('SSEvent.serialize: the event carries %s whenever it is the first payload attribute that is not None in the documented '
                'order data > text > json, and nothing else' % expected) if expected else \
            'SSEvent.serialize: an event without data, text and json carries no payload line'
        fails = [(label, bad, cell) for (label, bad, cell) in results[expected] if bad is not None]
        if fails:
            label, (nid, why, path), cell = fails[0]
            node = cfg.node(nid)
            run.fail(what, f, node.ast if node.ast is not None else node.text(), where='%s:%s' % (f.file, node.lineno),
                     witness=['for an event with %s the returned event %s' % (lb, b[1]) for (lb, b, _c) in fails[:4]] + (flow.describe_path(cfg, path) if path else []),
                     runtime_witness="SSEvent(%s): the 'data:' line of the body event is not the documented one" % ', '.join(
                         '%s=<%s>' % (k, 'truthy' if cell[k] == _FULL else 'empty') for k in order if cell[k] != _ABSENT))
        elif not undecided_msgs:
            run.ok(what + ' (%d presence cells evaluated)' % len(results[expected]), f.loc(), 'payload %s' % (expected or 'none'))
    if undecided_msgs and not any(b is not None for rs in results.values() for (_l, b, _c) in rs):
        raise UnknownIdiom(undecided_msgs[0])


_PCT = re.compile(r'%(?:\((\w+)\))?([#0\- +]*)(\*|\d+)?(?:\.(\d+))?([a-zA-Z%])')


def _render_parts(e):
    """A string-building expression as a list of ('lit', text) / ('expr', node, conversion, format spec), adjacent
    literals merged: constants, f-strings, `'..'.format(..)`, `'..' % ..`, `+` concatenation and `sep.join([..])` read
    alike.  None when the expression is none of these (or uses a feature that is not modelled)."""
    def merge(parts):
        out = []
        for q in parts:
            if q[0] == 'lit' and q[1] == '':
                continue
            if q[0] == 'lit' and out and out[-1][0] == 'lit':
                out[-1] = ('lit', out[-1][1] + q[1])
            else:
                out.append(q)
        return out

    def go(e):
        if isinstance(e, ast.Constant) and isinstance(e.value, str):
            return [('lit', e.value)]
        if isinstance(e, ast.JoinedStr):
            out = []
            for x in e.values:
                if isinstance(x, ast.Constant) and isinstance(x.value, str):
                    out.append(('lit', x.value))
                elif isinstance(x, ast.FormattedValue):
                    spec = ''
                    if x.format_spec is not None:
                        sp = go(x.format_spec)
                        if sp is None or any(q[0] != 'lit' for q in sp):
                            return None
                        spec = ''.join(q[1] for q in sp)
                    out.append(('expr', x.value, {-1: '', 115: 's', 114: 'r', 97: 'a'}.get(x.conversion, '?'), spec))
                else:
                    return None
            return out
        if isinstance(e, ast.Call) and isinstance(e.func, ast.Attribute) and e.func.attr == 'format' and isinstance(e.func.value, ast.Constant) \
                and isinstance(e.func.value.value, str):
            if any(isinstance(a, ast.Starred) for a in e.args) or any(k.arg is None for k in e.keywords):
                return None
            import string
            out, auto = [], 0
            try:
                fields = list(string.Formatter().parse(e.func.value.value))
            except ValueError:
                return None
            for lit, name, spec, conv in fields:
                if lit:
                    out.append(('lit', lit))
                if name is None:
                    continue
                if '{' in (spec or ''):
                    return None
                if name == '':
                    idx, auto = auto, auto + 1
                    arg = e.args[idx] if idx < len(e.args) else None
                elif name.isdigit():
                    arg = e.args[int(name)] if int(name) < len(e.args) else None
                elif name.isidentifier():
                    arg = next((k.value for k in e.keywords if k.arg == name), None)
                else:
                    return None
                if arg is None:
                    return None
                out.append(('expr', arg, conv or '', spec or ''))
            return out
        if isinstance(e, ast.BinOp) and isinstance(e.op, ast.Mod) and isinstance(e.left, ast.Constant) and isinstance(e.left.value, str):
            args = list(e.right.elts) if isinstance(e.right, ast.Tuple) else [e.right]
            if any(isinstance(a, ast.Starred) for a in args) or isinstance(e.right, ast.Dict):
                return None
            if not isinstance(e.right, ast.Tuple) and not isinstance(e.right, (ast.Name, ast.Attribute, ast.Call, ast.Constant)):
                return None
            out, pos, i = [], 0, 0
            fmt = e.left.value
            for m in _PCT.finditer(fmt):
                out.append(('lit', fmt[pos:m.start()]))
                pos = m.end()
                if m.group(5) == '%':
                    out.append(('lit', '%'))
                    continue
                if m.group(1) or m.group(2) or m.group(3) or m.group(4) or m.group(5) not in 'sdri' or i >= len(args):
                    return None
                out.append(('expr', args[i], {'s': 's', 'r': 'r', 'd': 'd', 'i': 'd'}[m.group(5)], ''))
                i += 1
            out.append(('lit', fmt[pos:]))
            if i != len(args) or '%' in ''.join(q[1] for q in out if q[0] == 'lit' and q[1] != '%'):
                return None
            return out
        if isinstance(e, ast.BinOp) and isinstance(e.op, ast.Add):
            a, b = go(e.left), go(e.right)
            return None if a is None or b is None else a + b
        if isinstance(e, ast.Call) and isinstance(e.func, ast.Attribute) and e.func.attr == 'join' and isinstance(e.func.value, ast.Constant) \
                and isinstance(e.func.value.value, str) and len(e.args) == 1 and not e.keywords and isinstance(e.args[0], (ast.List, ast.Tuple)):
            out = []
            for k, x in enumerate(e.args[0].elts):
                if isinstance(x, ast.Starred):
                    return None
                sub = go(x)
                if sub is None:
                    return None
                out += ([('lit', e.func.value.value)] if k else []) + sub
            return out
        if isinstance(e, (ast.Name, ast.Attribute)) or (isinstance(e, ast.Call) and isinstance(e.func, ast.Name) and e.func.id in ('str', 'repr')
                                                         and len(e.args) == 1 and not e.keywords):
            return [('expr', e, '', '')]
        return None

    parts = go(e)
    return None if parts is None else merge(parts)


def _status_line(run):
    p = run.project
    f = p.func('falcon.util.misc.code_to_http_status')
    cfg = cfg_of(f, p)
    run.use_cfg(cfg)
    ix = Index(cfg)
    st = param_at(f, 0, 'status')
    # the status table: HTTP_<NNN> = '<NNN> <reason>'
    m = p.module('falcon.status_codes')
    n_tab = 0
    bad_tab = []
    for name, expr in m.consts.items():
        mm = re.match(r'^HTTP_(\d+)$', name)
        if not mm:
            continue
        v = p.fold(m, expr)
        n_tab += 1
        if not (isinstance(v, str) and re.match(r'^%s \S' % mm.group(1), v) and len(mm.group(1)) == 3):
            bad_tab.append((name, v))
    if n_tab < 40:
        raise AnchorError('falcon.status_codes: only %d HTTP_<code> constants found' % n_tab)
    run.check(not bad_tab, 'falcon.status_codes: every HTTP_<NNN> constant is "<NNN> <reason>" with the same three-digit code', 'falcon.status_codes',
              'HTTP_NNN table: %s' % (bad_tab[:3] if bad_tab else 'consistent'), where=m.relpath,
              runtime_witness='resp.status = %s yields the status line %r' % (bad_tab[0] if bad_tab else ('', '')))
    rets = [n for n in cfg.live_nodes() if n.kind == 'stmt' and isinstance(n.ast, ast.Return)]
    if not rets:
        raise AnchorError('%s: no return' % f.qual)
    int_al = aliases(f, lambda e: isinstance(e, ast.Call) and is_name(e.func, 'int') and len(e.args) == 1 and is_name(e.args[0], st))

    def in_range(facts) -> bool:
        """some fact confines an int(status) local to three digits"""
        for (t, tr) in facts:
            for x in ast.walk(t):
                if isinstance(x, ast.Compare) and len(x.ops) == 2 and isinstance(x.comparators[0], ast.Name) and x.comparators[0].id in int_al:
                    lo, hi = x.left, x.comparators[1]
                    if (isinstance(lo, ast.Constant) and isinstance(hi, ast.Constant) and all(isinstance(o, ast.LtE) for o in x.ops)
                            and lo.value == 100 and hi.value == 999):
                        # the fact can only hold if the comparison is true
                        u = eval3(t, lambda e, x=x: False if e is x else None)
                        if u is not None and u != tr:
                            return True
        return False

    def has_space(facts, e) -> bool:
        for (t, tr) in facts:
            for x in ast.walk(t):
                if isinstance(x, ast.Compare) and len(x.ops) == 1 and isinstance(x.ops[0], ast.In) and isinstance(x.left, ast.Constant) \
                        and x.left.value in (' ', b' ') and is_name(x.comparators[0], st):
                    u = eval3(t, lambda e2, x=x: False if e2 is x else None)
                    if u is not None and u != tr:
                        return True
        return False

    raw_al = aliases(f, lambda e: is_name(e, st)) | {st}
    _line_dr = Deref(cfg, ix)

    def narrowed(facts) -> bool:
        """some fact that holds at the return is an isinstance() test of the parameter that came out true"""
        for (t, tr) in facts:
            for x in ast.walk(t):
                if isinstance(x, ast.Call) and is_name(x.func, 'isinstance') and x.args and isinstance(x.args[0], ast.Name) and x.args[0].id in raw_al:
                    u = eval3(t, lambda e, x=x: False if e is x else None)
                    if u is not None and u != tr:
                        return True
        return False

    def number(part) -> str:
        """What a rendered field is: 'int' (the int()-normalised code), 'enum' (<status>.value), 'raw' (the parameter itself,
        as handed in) or '?' (not understood)."""
        _k, e, conv, spec = part
        while isinstance(e, ast.Call) and isinstance(e.func, ast.Name) and e.func.id in ('str', 'repr', 'format') and len(e.args) == 1 and not e.keywords:
            e = e.args[0]
        if isinstance(e, ast.Name) and e.id in raw_al:
            return 'raw'
        if spec not in ('', 'd') or conv not in ('', 's', 'r', 'd'):
            return '?'
        if isinstance(e, ast.Name) and e.id in int_al:
            return 'int'
        if isinstance(e, ast.Call) and is_name(e.func, 'int') and len(e.args) == 1 and not e.keywords and is_name(e.args[0], st):
            return 'int'
        if isinstance(e, ast.Attribute) and e.attr == 'value' and is_name(e.value, st):
            return 'enum'
        return '?'

    for r in rets:
        v = r.ast.value
        if isinstance(v, ast.Name) and v.id not in raw_al and v.id not in int_al:
            # `line = '{} {}'.format(code, reason); return line`: the local is the expression it was bound to
            ds = ix.defs_reaching(r.id, v.id)
            if len(ds) == 1:
                dv = def_value(cfg, ds[0], v.id)
                if dv[0] == 'expr' and dv[1] is not None and all(
                        ix.defs_reaching(r.id, x.id) == ix.defs_reaching(ds[0], x.id) for x in ast.walk(dv[1]) if isinstance(x, ast.Name)):
                    v = dv[1]
        if v is not None:
            v = _line_dr.norm(v, r.id)       # attr = 'HTTP_' + str(code); getattr(status_codes, attr)
        facts = ix.facts(r.id)
        where = '%s:%s' % (f.file, r.lineno)
        what = 'code_to_http_status returns a "<3 digits> <reason>" shaped line'
        if is_name(v, st) or (isinstance(v, ast.Call) and isinstance(v.func, ast.Attribute) and v.func.attr == 'decode' and is_name(v.func.value, st)):
            run.check(has_space(facts, v), what + ' (a str/bytes status is passed through only when it contains a space)', f, r.ast, where=where,
                      runtime_witness='resp.status = "404" is sent as the status line "404"')
        elif isinstance(v, ast.Call) and is_name(v.func, 'getattr') and len(v.args) == 2:
            tgt = p.resolve_expr(f.module, v.args[0], f)
            key = _render_parts(v.args[1])
            # the key is 'HTTP_' followed by the int-normalised code, however it is put together
            ok = (tgt == 'falcon.status_codes' and key is not None and len(key) == 2 and key[0] == ('lit', 'HTTP_')
                  and key[1][0] == 'expr' and number(key[1]) == 'int')
            if not ok:
                raise UnknownIdiom('%s: %s' % (f.qual, short(r.ast)))
            run.check(in_range(facts), what + ' (table lookup HTTP_<code> with the code confined to 100-999)', f, r.ast, where=where)
        else:
            parts = _render_parts(v)
            if parts is None or not parts:
                raise UnknownIdiom('%s: %s' % (f.qual, short(r.ast)))
            if parts[0][0] == 'lit':
                if len(parts) == 1:
                    run.check(bool(re.match(r'^[1-9]\d\d \S', parts[0][1])), what + ' (constant line)', f, r.ast, where=where,
                              runtime_witness='the status line %r is sent' % parts[0][1])
                    continue
                raise UnknownIdiom('%s: %s' % (f.qual, short(r.ast)))
            kind = number(parts[0])
            if kind == 'raw':
                # the number rendered into the line is the parameter as it was handed in, not the local that int() produced
                if narrowed(facts):
                    raise UnknownIdiom('%s: the raw status is rendered under an isinstance() fact: %s' % (f.qual, short(r.ast)))
                if any(isinstance(x, ast.Name) and x.id == st and isinstance(x.ctx, (ast.Store, ast.Del)) for x in walk_self(f.node)):
                    raise UnknownIdiom('%s: the parameter `%s` is rebound; cannot tell what %s renders' % (f.qual, st, short(r.ast)))
                run.fail(what + ': the number rendered into the line is the raw `%s` argument, not the int()-normalised code that was range-checked'
                         % st, f, r.ast, where=where,
                         runtime_witness="resp.status = b'460' yields the status line \"b'460' Unknown\", 460.0 yields '460.0 Unknown' "
                                         '(any code without a falcon constant, given as bytes / float / padded str)')
                continue
            if kind == '?':
                raise UnknownIdiom('%s: first rendered field %s' % (f.qual, short(parts[0][1])))
            spaced = len(parts) > 1 and parts[1][0] == 'lit' and parts[1][1].startswith(' ')
            has_reason = spaced and (len(parts) > 2 or parts[1][1].strip() != '')
            if spaced and not has_reason:
                raise UnknownIdiom('%s: status line without a reason: %s' % (f.qual, short(r.ast)))
            ok = spaced and (in_range(facts) if kind == 'int' else True)
            run.check(ok, what + ' (the code, one space, the reason; code confined to 100-999)', f, r.ast, where=where,
                      runtime_witness='resp.status = 7 yields the status line "7 Unknown"')
    # only ValueError leaves it
    E = Escape(p)
    summ = E.summary(f)
    others = sorted(k for k in summ if p.is_subclass(k, 'builtins.ValueError') is not True)
    run.check(not others, 'code_to_http_status raises nothing but ValueError (or a subclass)', f, 'escapes: %s' % (others or 'ValueError only'), where=f.loc(),
              witness=['%s %s' % w for k in others for w in summ[k]])


def r7_sse_and_status(run):
    _sse(run)
    _sse_precedence(run)
    _status_line(run)


# ---------------------------------------------------------------------------
# R9: the 'body' of a body event is a byte string -- never None
# ---------------------------------------------------------------------------

def _stable_facts(ix: Index, nid: int, inner, name: str):
    """The dominating branch facts about local `name` at node nid that still speak about the value the local has THERE
    (the same definitions reach the test and the use: a test of an earlier value of a reassigned local says nothing)."""
    here = ix.defs_reaching(nid, name)
    return [(t, tr) for (t, tr, tn) in ix.facts3(nid, inner) if tn == nid or ix.defs_reaching(tn, name) == here]


def _noneness(a: AsgiCall, e, nid: int, is_stream, depth=0):
    """Abstract value of `e` (evaluated at node nid) over the None partition:
    ('no', _) never None | ('app', def) a value handed over by the application's stream object, nothing excludes None |
    ('none', e) the constant None | ('maybe', def) some other value nothing proves to be not None | ('call', _) produced by a call, not judged | ('?', why)."""
    e = strip_await(e)
    if isinstance(e, ast.Constant):
        return ('no', None) if e.value is not None else ('none', e)
    if isinstance(e, (ast.JoinedStr, ast.List, ast.Tuple, ast.Dict, ast.BinOp)):
        return ('no', None)
    if isinstance(e, ast.BoolOp):
        if isinstance(e.op, ast.Or):
            # `x or y`: an operand that is returned early is truthy, hence not None; only the last one is returned as it is
            return _noneness(a, e.values[-1], nid, is_stream, depth)
        rs = [_noneness(a, v, nid, is_stream, depth) for v in e.values]
        bad = [r for r in rs if r[0] != 'no']
        return bad[0] if bad else ('no', None)
    if isinstance(e, ast.IfExp):
        rs = [_noneness(a, e.body, nid, is_stream, depth), _noneness(a, e.orelse, nid, is_stream, depth)]
        bad = [r for r in rs if r[0] != 'no']
        return bad[0] if bad else ('no', None)
    if isinstance(e, ast.Call):
        if isinstance(e.func, ast.Attribute) and is_stream(e.func.value):
            return ('app', e)
        if isinstance(e.func, ast.Name) and e.func.id in ('bytes', 'str', 'bytearray', 'memoryview'):
            return ('no', None)
        if isinstance(e.func, ast.Attribute) and e.func.attr in ('encode', 'join', 'format'):
            return ('no', None)
        return ('call', e)
    if isinstance(e, ast.Name):
        is_x = lambda x: is_name(x, e.id)  # noqa: E731
        if refuted(_stable_facts(a.ix, nid, e, e.id), assume_none(is_x, True)):
            return ('no', None)
        if depth > 3:
            return ('?', 'definition chain of %s too deep' % e.id)
        worst = ('no', None)
        ds = a.ix.defs_reaching(nid, e.id)
        if not ds:
            return ('?', '%s has no reaching definition' % e.id)
        for d in ds:
            dv = def_value(a.cfg, d, e.id)
            if dv[0] == 'expr' and dv[1] is not None:
                r = _noneness(a, dv[1], d, is_stream, depth + 1)
            elif dv[0] == 'iter':
                r = ('app', dv[1]) if is_stream(strip_await(dv[1])) else ('maybe', dv[1])
            else:
                r = ('maybe', a.cfg.node(d).ast)
            if r[0] in ('app', 'none'):
                return r
            if r[0] != 'no' and worst[0] == 'no':
                worst = r
        return worst
    if isinstance(e, ast.Attribute):
        return ('maybe', e)
    return ('?', 'expression %s' % short(e))


def r9_body_bytes(run):
    """ASGI: the 'body' of every http.response.body event is a byte string.  A chunk handed over by the application's
    stream object (`await stream.read(n)`, an item of `async for ... in stream`) may be None -- the framework documents
    both ("Handle the case in which data is None"; `if data is None: break`) -- so on the way into the event the None
    cell must be covered: by a normaliser whose last alternative is not None (`data or b''`), or by a dominating test
    that excludes None for the very value that is sent.
    Witness: resp.stream = object whose async read() returns None once before b'': the server receives 'body': None."""
    a = AsgiCall(run)
    f = a.f
    st_al = aliases(f, lambda e: attr_of(e, a.resp, ('stream',)))
    is_stream = lambda e: (isinstance(e, ast.Name) and e.id in st_al) or attr_of(e, a.resp, ('stream',))  # noqa: E731
    what = "ASGI: the 'body' of a body event is never None (a None chunk from the application's stream is normalised or excluded first)"
    unknown = []
    n = 0
    for ev in sorted(a.events.values(), key=lambda e: e.call.lineno):
        if ev.kind != 'BODY' or ev.body is None:
            continue
        for nid in a.ix.nodes_of(ev.call):
            kind, src = _noneness(a, ev.body, nid, is_stream)
            cons = "'body': %s" % short(ev.body, 80)
            if kind == 'no':
                n += 1
                run.ok(what, f.loc(ev.call), cons)
            elif kind in ('app', 'none'):
                n += 1
                run.fail(what + (': `%s` comes from `%s` and nothing between there and the event excludes None' % (short(ev.body), short(src, 60))
                                 if kind == 'app' else ': `%s` evaluates to None' % short(ev.body)),
                         f, cons, where=f.loc(ev.call),
                         runtime_witness="resp.stream whose async read() (or iterator) yields None before the end: the server receives "
                                         "{'type': 'http.response.body', 'body': None, 'more_body': True} and aborts the response")
            elif kind == 'call':
                continue            # produced by a call (e.g. SSEvent.serialize, framed by R7): not this clause
            else:
                unknown.append('%s: cannot tell whether %s can be None (%s)' % (f.qual, cons, short(src, 50) if not isinstance(src, str) else src))
            break
    if unknown:
        raise UnknownIdiom('; '.join(unknown[:2]))
    if n == 0:
        raise AnchorError('%s: no body event carries a body expression' % f.qual)


# ---------------------------------------------------------------------------
# R10: server-sent events -- the emitter is validated before the response starts; the disconnect watcher is
# cancelled before it is awaited
# ---------------------------------------------------------------------------

def r10_sse_stream(run):
    """ASGI SSE branch.
    (a) The disconnect watcher -- a task whose coroutine loops on `await receive()` and therefore completes only when the
    client goes away -- is awaited only after it has been cancelled (or is known to be done): every path from its creation
    to `await <task>` passes `<task>.cancel()` or the true edge of a `<task>.done()` test.  Otherwise a finite event stream
    never gets its final body event while the client stays connected.
    (b) The object iterated by `async for ... in <emitter>` is validated BEFORE the response start is sent: some test that
    inspects the emitter dominates the start event with one outcome and ends in a `raise` on every path of the other.  After
    the start event the server can no longer answer with an error response: the client gets a committed, truncated stream.
    Witness (a): resp.sse = finite async generator, client keeps the connection open: no event with more_body false.
    Witness (b): resp.sse = an async generator FUNCTION: http.response.start is sent, then `async for` raises TypeError."""
    a = AsgiCall(run)
    p = run.project
    f, cfg, ix = a.f, a.cfg, a.ix
    receive = param_at(f, 2, 'receive')
    sse_al = aliases(f, lambda e: attr_of(e, a.resp, ('_sse', 'sse')))
    is_sse = lambda e: (isinstance(e, ast.Name) and e.id in sse_al) or attr_of(e, a.resp, ('_sse', 'sse'))  # noqa: E731
    loops = [n for n in walk_self(f.node) if isinstance(n, (ast.AsyncFor, ast.For)) and is_sse(n.iter)]
    if not loops:
        raise AnchorError('%s: no loop over %s.sse' % (f.qual, a.resp))
    send_nodes = sorted({nid for ev in a.events.values() for nid in ix.nodes_of(ev.call)})
    # ---- (b)
    what_b = 'ASGI SSE: the emitter is validated (rejected with an exception) before the response start is sent'
    for lp in loops:
        heads = [i for i in cfg.nodes_for(lp) if cfg.node(i).kind == 'iter']
        if not heads:
            continue
        starts = sorted({nid for ev in a.events.values() if ev.kind == 'START' for nid in ix.nodes_of(ev.call)
                         if flow.find_path(cfg, [nid], heads, edge_filter=flow.no_exc) is not None})
        if not starts:
            raise UnknownIdiom('%s: no response-start event precedes the loop over the SSE emitter' % f.qual)
        # the check extracted into a module-level / same-class helper that is handed the emitter: the helper call validates
        # when, inside the helper, a test inspecting its parameter rejects one outcome with a raise on every path
        validating = []
        for c in walk_self(f.node):
            if isinstance(c, ast.Call) and (any(is_sse(x) for x in c.args) or any(is_sse(k.value) for k in c.keywords)):
                g = plain_helper(p, f, c)
                bound = bind_args(g, c) if g is not None and not g.is_async else None
                if bound is None:
                    continue
                prms = {k for k, v in bound.items() if is_sse(v)}
                gcfg = cfg_of(g, p)
                for t in gcfg.live_nodes():
                    if t.kind != 'test' or not any(isinstance(cc, ast.Call) and any(isinstance(x, ast.Name) and x.id in prms for x in cc.args)
                                                   for cc in walk_self(t.ast)):
                        continue
                    for (y, l) in gcfg.succ[t.id]:
                        if l not in ('T', 'F'):
                            continue
                        region = flow.reachable(gcfg, [y], edge_filter=flow.no_exc)
                        raises = any(gcfg.node(i).kind == 'stmt' and isinstance(gcfg.node(i).ast, ast.Raise) for i in region)
                        if raises and gcfg.exit not in region:
                            validating.extend(ix.nodes_of(c))
        for s in starts:
            ok = bool(validating) and flow.dominated_by_nodes(cfg, s, validating)
            inspected = None
            for t in cfg.live_nodes():
                if t.kind != 'test' or not any(isinstance(c, ast.Call) and any(is_sse(x) for x in c.args) for c in walk_self(t.ast)):
                    continue
                inspected = t
                for (y, l) in cfg.succ[t.id]:
                    if l not in ('T', 'F') or not ix.dominated_by_edge(s, (t.id, y, l)):
                        continue
                    other = [y2 for (y2, l2) in cfg.succ[t.id] if l2 in ('T', 'F') and l2 != l]
                    region = flow.reachable(cfg, other, edge_filter=flow.no_exc)
                    raises = any(cfg.node(i).kind == 'stmt' and isinstance(cfg.node(i).ast, ast.Raise) for i in region)
                    if other and raises and flow.find_path(cfg, other, [cfg.exit] + send_nodes, edge_filter=flow.no_exc) is None:
                        ok = True
            why = ('`%s` inspects the emitter but neither outcome is rejected before the start event' % short(inspected.ast, 60)) if inspected is not None \
                else 'no test inspects the emitter before the start event'
            run.check(ok, what_b + ('' if ok else ' [%s]' % why), f,
                      inspected.ast if (inspected is not None and not ok) else 'start event before `async for ... in %s`' % short(lp.iter),
                      where='%s:%s' % (f.file, cfg.node(s).lineno),
                      runtime_witness='resp.sse = an async generator function (not the generator object): the server receives '
                                      'http.response.start (200 text/event-stream) and then the application fails with TypeError -- a committed, '
                                      'truncated response instead of an error response')
    # ---- (a)
    what_a = 'ASGI SSE: the disconnect watcher task is awaited only after it was cancelled (or is known to be done)'
    tasks = {}
    for n in walk_self(f.node):
        if isinstance(n, ast.Assign) and len(n.targets) == 1 and isinstance(n.targets[0], ast.Name) and isinstance(n.value, ast.Call) \
                and isinstance(n.value.func, ast.Attribute) and n.value.func.attr in ('create_task', 'ensure_future') and n.value.args:
            co = n.value.args[0]
            g = f.nested.get(co.func.id) if isinstance(co, ast.Call) and isinstance(co.func, ast.Name) else None
            if g is not None and any(isinstance(c, ast.Call) and is_name(c.func, receive) for c in walk_self(g.node)):
                tasks.setdefault(n.targets[0].id, []).append(n)
    if not tasks:
        raise AnchorError('%s: no task watching receive() for a disconnect is created' % f.qual)
    for name, binds in sorted(tasks.items()):
        is_t = lambda e, name=name: is_name(e, name)  # noqa: E731
        awaits = [x for x in walk_self(f.node) if isinstance(x, ast.Await) and is_t(x.value)]
        cancel = {nid for c in walk_self(f.node) if isinstance(c, ast.Call) and isinstance(c.func, ast.Attribute) and c.func.attr == 'cancel'
                  and is_t(c.func.value) for nid in ix.nodes_of(c)}
        is_done = lambda e: isinstance(e, ast.Call) and isinstance(e.func, ast.Attribute) and e.func.attr == 'done' and is_t(e.func.value)  # noqa: E731
        done_edges = set()
        for t in cfg.live_nodes():
            if t.kind == 'test' and mentions(t.ast, is_done):
                for (y, l) in cfg.succ[t.id]:
                    if l in ('T', 'F') and eval3(t.ast, lambda e: False if is_done(e) else None) == (l != 'T'):
                        done_edges.add((t.id, y, l))        # this outcome is impossible unless done() returned True
        if not awaits:
            run.ok(what_a + ' (the task is never awaited)', f.loc(binds[0]), name)
            continue
        for aw in awaits:
            for nid in ix.nodes_of(aw):
                srcs = sorted({y for b in binds for d in ix.nodes_of(b.value) for (y, l) in cfg.succ[d] if l != 'exc'})
                path = flow.find_path(cfg, srcs, [nid], avoid_nodes=cancel - {nid}, avoid_edges=done_edges, edge_filter=flow.no_exc)
                run.check(path is None, what_a, f, 'await %s' % name, where='%s:%s' % (f.file, cfg.node(nid).lineno),
                          witness=flow.describe_path(cfg, path) if path else None,
                          runtime_witness='resp.sse = a finite async generator and a client that keeps the connection open: `await %s` '
                                          'blocks until the client disconnects, the final body event (more_body false) is never sent' % name)


# ---------------------------------------------------------------------------
# R11: rendering the media -- the optional fast-path serializer is called only where it exists; the render cache is
# filled on every path that found it empty
# ---------------------------------------------------------------------------

RESOLVER = 'falcon.media.handlers.Handlers._create_resolver'


def _optional_resolve_positions(p) -> Set[int]:
    """Positions of the tuple returned by Handlers._resolve that may be None: `getattr(handler, <name>, None)`."""
    f = p.func(RESOLVER)
    inner = [g for g in f.nested.values() if any(isinstance(r, ast.Return) and isinstance(r.value, ast.Tuple) for r in walk_self(g.node))]
    if len(inner) != 1:
        raise AnchorError('%s: the resolver closure was not found' % RESOLVER)
    out: Set[int] = set()
    widths = set()
    for r in walk_self(inner[0].node):
        if isinstance(r, ast.Return) and isinstance(r.value, ast.Tuple):
            widths.add(len(r.value.elts))
            if all(isinstance(e, ast.Constant) and e.value is None for e in r.value.elts):
                continue            # the raise_not_found=False answer: every position None (callers that pass it test the handler)
            for i, e in enumerate(r.value.elts):
                if isinstance(e, ast.Call) and is_name(e.func, 'getattr') and len(e.args) == 3 and isinstance(e.args[2], ast.Constant) and e.args[2].value is None:
                    out.add(i)
    if len(widths) != 1 or not out:
        raise UnknownIdiom('%s: cannot read which positions of the resolver result are optional' % RESOLVER)
    return out


RENDER_SIBLINGS = ('falcon.response.Response.render_body', 'falcon.asgi.response.Response.render_body', ASGI_CALL)


def r11_media_render(run):
    """The three renderers of resp.media (Response.render_body, asgi.Response.render_body and its inlined copy in
    asgi.App.__call__).
    (a) `serialize_sync` -- position 1 of what Handlers._resolve returns -- is `getattr(handler, '_serialize_sync', None)`: an
    OPTIONAL fast path.  It is called only where a dominating test proves it truthy; everywhere else the handler's own
    serialize method is the way.  Witness: a media handler without `_serialize_sync` (any subclass of a stock handler, any
    user handler) and resp.media set: `None(media)` -> TypeError -> 500 instead of the serialized media.
    (b) Once `_media_rendered is _UNSET` was found true, every normal path to the next read of `_media_rendered` stores the
    rendition: the sentinel itself must never be returned as the body.  Witness: same handler: render_body() returns _UNSET,
    `len(data)` raises TypeError out of the ASGI callable before any response-start event."""
    p = run.project
    opt = _optional_resolve_positions(p)
    n_calls = 0
    for q in RENDER_SIBLINGS:
        f = p.func(q)
        run.use(f)
        if q != ASGI_CALL:
            # the cache protocol spread over render_body and a same-class helper it calls (`self._render_media()` that tests /
            # fills the cache itself, `self._media_rendered = self._serialize_media()`) is read on the inlined body
            f = inline_view(p, f)
        cfg = cfg_of(f, p)
        run.use_cfg(cfg)
        ix = Index(cfg)
        tag = q.replace('falcon.', '')
        # ---- (a)
        for st in walk_self(f.node):
            if not (isinstance(st, ast.Assign) and len(st.targets) == 1 and isinstance(st.targets[0], ast.Tuple)):
                continue
            v = strip_await(st.value)
            res_al = aliases(f, lambda e: isinstance(e, ast.Attribute) and e.attr == '_resolve')       # resolve = handlers._resolve
            if not (isinstance(v, ast.Call) and ((isinstance(v.func, ast.Attribute) and v.func.attr == '_resolve')
                                                 or (isinstance(v.func, ast.Name) and v.func.id in res_al))):
                continue
            for i, t in enumerate(st.targets[0].elts):
                if i not in opt or not isinstance(t, ast.Name):
                    continue
                name = t.id
                is_x = lambda e, name=name: is_name(e, name)  # noqa: E731
                if not any(isinstance(c, ast.Call) and is_x(c.func) for c in walk_self(f.node)):
                    continue            # (a placeholder such as `_`: never called)
                if sum(1 for x in ast.walk(f.node) if is_name(x, name) and isinstance(x.ctx, ast.Store)) != 1:
                    raise UnknownIdiom('%s: the optional serializer local %s is bound more than once' % (f.qual, name))
                for c in walk_self(f.node):
                    if not (isinstance(c, ast.Call) and is_x(c.func)):
                        continue
                    for nid in ix.nodes_of(c):
                        n_calls += 1
                        facts = ix.facts(nid, c)
                        proven = refuted(facts, assume_none(is_x, True))
                        absent = refuted(facts, lambda e: True if is_x(e) else None)       # the facts say: falsy
                        run.check(proven, '%s: the optional fast-path `%s` (None when the handler has none) is called only where a test proves it present%s'
                                  % (tag, name, '' if proven else (' [it is called where the tests say it is ABSENT]' if absent else ' [no test guards the call]')),
                                  f, c, where=f.loc(c),
                                  runtime_witness='resp.media with a media handler that has no _serialize_sync (a subclassed or user-defined handler): '
                                                  'None(media) raises TypeError, the response is a 500 instead of the serialized media')
        # ---- (b)
        is_cache = lambda e: isinstance(e, ast.Attribute) and e.attr == '_media_rendered'  # noqa: E731

        def is_unset_cmp(e):
            return (isinstance(e, ast.Compare) and len(e.ops) == 1 and isinstance(e.ops[0], ast.Is) and is_cache(e.left)
                    and dotted(e.comparators[0]) is not None and dotted(e.comparators[0]).split('.')[-1] == '_UNSET')

        stores = {n.id for n in cfg.live_nodes() if n.kind == 'stmt' and any(is_cache(x) and isinstance(x.ctx, ast.Store) for x in n.walk())}
        tests = [n for n in cfg.live_nodes() if n.kind == 'test' and mentions(n.ast, is_unset_cmp)]
        if not tests:
            raise AnchorError('%s: no `_media_rendered is _UNSET` test' % f.qual)
        for t in tests:
            loads = [n.id for n in cfg.live_nodes() if n.id != t.id and n.kind in ('stmt', 'test')
                     and any(is_cache(x) and isinstance(x.ctx, ast.Load) for x in n.walk())]
            for (y, l) in cfg.succ[t.id]:
                if l not in ('T', 'F') or implied(t.ast, l == 'T', is_unset_cmp) is not True:
                    continue
                path = flow.find_path(cfg, [y], loads, avoid_nodes=stores, edge_filter=flow.no_exc)
                run.check(path is None, '%s: after `_media_rendered is _UNSET` every normal path stores the rendition before the cache is read' % tag,
                          f, t.ast, where='%s:%s' % (f.file, t.lineno), witness=flow.describe_path(cfg, [t.id] + path) if path else None,
                          runtime_witness='resp.media with a handler that takes the path without a store: render_body() returns the _UNSET sentinel; '
                                          'len(data) raises TypeError before any response-start event')
    if n_calls == 0:
        raise AnchorError('no call of an optional fast-path serializer was found in the render siblings')


# ---------------------------------------------------------------------------
# R12: the raw header setters hand native strings to the header store
# ---------------------------------------------------------------------------

# the public setters that take a caller-supplied header VALUE (one line of reason each)
RAW_SETTERS = {
    'set_header': 'documented: the value is converted with str() (uwsgi raises TypeError for a non-str header)',
    'append_header': 'same contract as set_header; the stored value is concatenated with a str',
    'set_headers': 'same contract, one (name, value) pair at a time',
}
_STR_METHODS = {'lower', 'upper', 'strip', 'title', 'format', 'join', 'encode', 'decode', 'replace'}


class _NativeValues:
    """Def-use from a value stored in the header store back to what the CALLER passed: `raw(e, nid)` is a description of
    the first caller-supplied value that reaches `e` (evaluated at CFG node nid of f) without passing str(), or None.
    Read alike: a local and what it was bound to; `str()` / a str method / an f-string / `+` and `%` of such; a value
    already in the store; a module-level or same-class helper that is handed the value (its returns are read with its
    parameters bound to the arguments); an additive parameter with a str default that no caller in the package passes."""

    def __init__(self, p, f: Func, cfg, ix: Index, is_store, args: Optional[Dict[str, Callable[[], Optional[str]]]] = None, depth=0):
        self.p, self.f, self.cfg, self.ix, self.is_store = p, f, cfg, ix, is_store
        self.args = args            # inlined helper: parameter -> verdict of the caller's argument
        self.level = depth

    def raw(self, e, nid, depth=0):
        p, f = self.p, self.f
        e = strip_await(e)
        if isinstance(e, ast.Constant):
            return None
        if isinstance(e, ast.Call):
            if is_name(e.func, 'str'):
                return None
            if isinstance(e.func, ast.Attribute) and e.func.attr in _STR_METHODS:
                return None         # a str method: returns a str or raises for anything else
            if isinstance(e.func, ast.Attribute) and e.func.attr in ('get', 'pop') and self.is_store(e.func.value) and e.args and not e.keywords:
                # a value that is in the store already, or the default that is handed in
                for d in e.args[1:]:
                    r = self.raw(d, nid, depth)
                    if r:
                        return r
                return None
            g = plain_helper(p, f, e) if self.level < 2 else None
            bound = bind_args(g, e) if g is not None and not g.is_async else None
            if bound is not None:
                gcfg = cfg_of(g, p)
                sub = _NativeValues(p, g, gcfg, Index(gcfg), lambda x: False,
                                    {k: (lambda v=v: self.raw(v, nid, depth + 1)) for k, v in bound.items()}, self.level + 1)
                rets = [n for n in gcfg.live_nodes() if n.kind == 'stmt' and isinstance(n.ast, ast.Return) and n.ast.value is not None]
                if rets:
                    for r in rets:
                        got = sub.raw(r.ast.value, r.id)
                        if got:
                            return got
                    return None
            raise UnknownIdiom('%s: cannot tell what `%s` returns' % (f.qual, short(e)))
        if isinstance(e, ast.JoinedStr):
            return None
        if isinstance(e, ast.BinOp) and isinstance(e.op, (ast.Add, ast.Mod)):
            return self.raw(e.left, nid, depth) or self.raw(e.right, nid, depth)
        if isinstance(e, ast.IfExp):
            return self.raw(e.body, nid, depth) or self.raw(e.orelse, nid, depth)
        if isinstance(e, (ast.Tuple, ast.List)):
            for x in e.elts:
                r = self.raw(x, nid, depth)
                if r:
                    return r
            return None
        if isinstance(e, ast.Subscript) and self.is_store(e.value):
            return None             # a value that is in the store already
        if isinstance(e, (ast.Name, ast.Attribute)) and isinstance(p.fold(f.module, e, f.cls, f), str):
            return None             # a module-level / class-level str constant
        if isinstance(e, ast.Name):
            if depth > 6:
                raise UnknownIdiom('%s: definition chain of %s too deep' % (f.qual, e.id))
            for d in self.ix.defs_reaching(nid, e.id):
                dv = def_value(self.cfg, d, e.id)
                if dv[0] == 'expr' and dv[1] is not None:
                    r = self.raw(dv[1], d, depth + 1)
                    if r:
                        return r
                elif dv[0] == 'aug' and isinstance(dv[1], ast.Add):
                    # x += y: the old x and y
                    r = self.raw(dv[2], d, depth + 1)
                    if r:
                        return r
                    for d0 in self.ix.defs_reaching(d, e.id):
                        if d0 != d:
                            dv0 = def_value(self.cfg, d0, e.id)
                            if dv0[0] == 'param':
                                return self._param(e.id)
                            if dv0[0] == 'expr' and dv0[1] is not None:
                                r = self.raw(dv0[1], d0, depth + 1)
                                if r:
                                    return r
                            elif dv0[0] != 'aug':
                                raise UnknownIdiom('%s: binding of %s not understood' % (f.qual, e.id))
                elif dv[0] == 'param':
                    r = self._param(e.id)
                    if r:
                        return r
                elif dv[0] in ('iter', 'unpack'):
                    return 'an item of `%s`' % short(dv[1], 40)
                else:
                    raise UnknownIdiom('%s: binding of %s not understood' % (f.qual, e.id))
            return None
        raise UnknownIdiom('%s: header value expression `%s` not understood' % (f.qual, short(e)))

    def _param(self, name):
        p, f = self.p, self.f
        if self.args is not None:
            if name not in self.args:
                raise UnknownIdiom('%s: parameter %s of the inlined helper is not bound' % (f.qual, name))
            return self.args[name]()
        # an additive parameter with a default that no caller in the package passes is its default
        dflt = inert_default(p, f, name)
        if dflt is None:
            return 'the parameter `%s`' % name
        dval = p.fold(f.module, dflt, f.cls, None)
        if not isinstance(dval, str):
            raise UnknownIdiom('%s: the optional parameter `%s` (default %s) reaches the header store' % (f.qual, name, short(dflt)))
        return None


def r12_native_header_values(run):
    """WSGI: "native-string header pairs"; ASGI: the value is `.encode()`d when the start event is built.  Whatever the
    raw setters of falcon.Response store into the header dict / the extra-header list and that derives from what the CALLER
    passed (the `value` parameter, an item of `headers`) has gone through `str(...)` on the way (def-use from the store back to
    the parameter).  Witness: resp.set_header('X-Count', 42): start_response receives ('x-count', 42) (PEP 3333 violation;
    uwsgi raises TypeError) and on ASGI `42 .encode` raises AttributeError before the response-start event."""
    p = run.project
    cls = p.cls('falcon.response.Response')
    n = 0
    for mname, reason in sorted(RAW_SETTERS.items()):
        f = cls.methods.get(mname)
        if f is None:
            raise AnchorError('falcon.response.Response.%s not found' % mname)
        cfg = cfg_of(f, p)
        run.use_cfg(cfg)
        ix = Index(cfg)
        hd_al = aliases(f, lambda e: is_self_attr(e, '_headers'))
        is_store = lambda e: is_self_attr(e, '_headers') or is_self_attr(e, '_extra_headers') or (isinstance(e, ast.Name) and e.id in hd_al)  # noqa: E731

        raw = _NativeValues(p, f, cfg, ix, is_store).raw

        sinks = []          # (node id, value expression, construct)
        for nd in cfg.live_nodes():
            if nd.kind != 'stmt':
                continue
            s_ = nd.ast
            if isinstance(s_, ast.Assign):
                for t in s_.targets:
                    if isinstance(t, ast.Subscript) and is_store(t.value):
                        sinks.append((nd.id, s_.value, s_))
                    elif is_self_attr(t, '_extra_headers') and isinstance(s_.value, (ast.List, ast.Tuple)):
                        for pair in s_.value.elts:
                            sinks.append((nd.id, pair.elts[1] if isinstance(pair, ast.Tuple) and len(pair.elts) == 2 else pair, s_))
            elif isinstance(s_, ast.AugAssign) and isinstance(s_.target, ast.Subscript) and is_store(s_.target.value):
                sinks.append((nd.id, s_.value, s_))       # store[k] += v: what was there is native already
            elif isinstance(s_, ast.AnnAssign) and s_.value is not None and isinstance(s_.target, ast.Subscript) and is_store(s_.target.value):
                sinks.append((nd.id, s_.value, s_))
            for c in nd.walk():
                if isinstance(c, ast.Call) and isinstance(c.func, ast.Attribute) and c.func.attr in ('append', 'insert', 'extend', 'setdefault', 'update') \
                        and is_store(c.func.value):
                    for arg in c.args:
                        sinks.append((nd.id, arg.elts[1] if isinstance(arg, ast.Tuple) and len(arg.elts) == 2 else arg, c))
        if not sinks:
            raise AnchorError('%s: no store into the header dict / extra-header list' % f.qual)
        for nid, val, cons in sinks:
            n += 1
            r = raw(val, nid)
            run.check(r is None, 'Response.%s: the value stored in the header store is a native str: what the caller passed goes through str() first%s'
                      % (mname, '' if r is None else ' [%s reaches the store as it was passed]' % r), f, cons, where=f.loc(cons),
                      runtime_witness="resp.%s with a non-str value (42, a UUID): start_response receives a non-str header value "
                                      "(uwsgi: TypeError); on ASGI value.encode() raises AttributeError before the response-start event" % mname)
    if n == 0:
        raise AnchorError('no raw header setter stores anything')


# ---------------------------------------------------------------------------
# R13: SSEvent.__init__ rejects no documented argument
# ---------------------------------------------------------------------------

_TYPE_TESTS = ('builtins.isinstance', 'builtins.type', 'builtins.hasattr', 'builtins.issubclass', 'builtins.callable')


def _documented_type(p, f: Func, arg: ast.arg) -> Optional[str]:
    """`Optional[T]` / `T | None` / `T` annotation -> qualified T"""
    a = arg.annotation
    if a is None:
        return None
    if isinstance(a, ast.Constant) and isinstance(a.value, str):
        try:
            a = ast.parse(a.value, mode='eval').body
        except SyntaxError:
            return None
    if isinstance(a, ast.Subscript) and (p.resolve_expr(f.module, a.value, f) or '') in ('typing.Optional',):
        a = a.slice
    elif isinstance(a, ast.BinOp) and isinstance(a.op, ast.BitOr):
        sides = [x for x in (a.left, a.right) if not (isinstance(x, ast.Constant) and x.value is None)]
        if len(sides) != 1:
            return None
        a = sides[0]
    if not isinstance(a, (ast.Name, ast.Attribute)):
        return None
    return p.resolve_expr(f.module, a, f)


def r13_sse_ctor(run):
    """Events are built inside the emitter, AFTER http.response.start went out: an exception from SSEvent.__init__ escapes
    App.__call__ in mid-stream and the terminating body event is never sent.  So the constructor rejects nothing but a
    wrongly TYPED argument: every `raise` (and `assert`) in it is unreachable when each argument is None or an instance of
    its annotated type.  Decided per raise by evaluating its dominating branch facts for every cell of the partition
    {None, a value of the documented type} of the arguments they mention (`x is None`, isinstance against the documented
    type and its super/sub-types, not/and/or).  What the cells leave open is a test of the argument's VALUE (comparison,
    truthiness, a narrower isinstance): the raise then rejects some documented values - a violation; any other open test is
    an unknown idiom.
    W: `if retry is not None and retry <= 0: raise ValueError`: an emitter yields SSEvent(retry=0) ('reconnect at once',
    serialised as 'retry: 0' before): ValueError leaves the app after the start event, more_body never becomes false."""
    p = run.project
    f = p.func(SSE_EVENT + '.__init__')
    cfg = cfg_of(f, p)
    run.use_cfg(cfg)
    ix = Index(cfg)
    a = f.node.args
    if a.vararg or a.kwarg:
        raise UnknownIdiom('%s: star-parameters' % f.qual)
    args = [x for x in (a.posonlyargs + a.args + a.kwonlyargs) if x.arg != 'self']
    types: Dict[str, str] = {}
    for x in args:
        t = _documented_type(p, f, x)
        if t is None:
            raise UnknownIdiom('%s: annotation of %s' % (f.qual, x.arg))
        types[x.arg] = t
    if not types:
        raise AnchorError('%s takes no arguments' % f.qual)
    rebound = {n.id for n in ast.walk(f.node) if isinstance(n, ast.Name) and isinstance(n.ctx, ast.Store) and n.id in types}
    if rebound:
        raise UnknownIdiom('%s: rebinds its parameter(s) %s' % (f.qual, ', '.join(sorted(rebound))))

    def classes(e) -> List[Optional[str]]:
        return [p.resolve_expr(f.module, x, f) for x in (e.elts if isinstance(e, ast.Tuple) else [e])]

    def atom_for(cell: Dict[str, bool], open_value: list, open_other: list):
        """cell: parameter -> True when it is None, False when it is a value of its documented type"""
        def atom(e):
            for name, is_none in cell.items():
                is_x = lambda x, name=name: is_name(x, name)  # noqa: E731
                pol = none_test(e, is_x)
                if pol is not None:
                    return pol == is_none
                if is_x(e):
                    if is_none:
                        return False
                    open_value.append(e)          # truthiness of a documented value
                    return None
                if isinstance(e, ast.Call) and p.resolve_expr(f.module, e.func, f) == 'builtins.isinstance' and len(e.args) == 2 \
                        and not e.keywords and is_x(e.args[0]):
                    cs = classes(e.args[1])
                    if is_none:
                        return any(c == 'builtins.object' for c in cs)
                    t = types[name]
                    rel = [(p.is_subclass(t, c) if c else None, p.is_subclass(c, t) if c else None) for c in cs]
                    if any(up is True for (up, _d) in rel):
                        return True
                    if any(up is None or down is None for (up, down) in rel):
                        open_other.append(e)
                        return None
                    if any(down is True for (_u, down) in rel):
                        open_value.append(e)      # a narrower class: some documented values pass, some do not
                        return None
                    return False
            return None
        return atom

    def leaves(t) -> List[ast.AST]:
        t = strip_await(t)
        if isinstance(t, ast.UnaryOp) and isinstance(t.op, ast.Not):
            return leaves(t.operand)
        if isinstance(t, ast.BoolOp):
            return [y for v in t.values for y in leaves(v)]
        return [t]

    sites = []
    for n in cfg.live_nodes():
        if n.kind == 'stmt' and isinstance(n.ast, ast.Raise):
            sites.append((n, []))
        elif n.kind == 'stmt' and isinstance(n.ast, ast.Assert):
            sites.append((n, [(n.ast.test, False)]))
    what = 'SSEvent.__init__ rejects no argument that is None or an instance of its documented type (an event built in mid-stream must not raise)'
    explained: Set[str] = set()
    for n, extra in sites:
        # `ok = retry is None or isinstance(retry, int)` ... `if not ok: raise`: the local is the test it was bound to
        facts = [(subst_locals(f, t), tr) for (t, tr) in ix.facts(n.id) + extra]
        names = sorted({x.id for (t, _tr) in facts for x in ast.walk(t) if isinstance(x, ast.Name) and x.id in types})
        if len(names) > 6:
            raise UnknownIdiom('%s: %s depends on %d arguments' % (f.qual, short(n.ast, 60), len(names)))
        verdict = None
        for bits in range(1 << len(names)):
            cell = {nm: bool(bits >> i & 1) for i, nm in enumerate(names)}
            open_value, open_other = [], []
            atom = local_atom(f, atom_for(cell, open_value, open_other))
            vals = [(t, tr, eval3(t, atom)) for (t, tr) in facts]
            if any(v is not None and v != tr for (_t, tr, v) in vals):
                continue            # refuted for this cell: the raise is not reached
            label = ', '.join('%s %s' % (nm, 'None' if cell[nm] else 'a %s' % types[nm].rsplit('.', 1)[-1]) for nm in names) or 'any arguments'
            undecided = [y for (t, _tr, v) in vals if v is None for y in leaves(t) if eval3(y, atom) is None]
            if not undecided:
                verdict = ('every', label, None)
                break
            other = [y for y in undecided if not any(isinstance(x, ast.Name) and x.id in types for x in ast.walk(y))
                     or any(isinstance(x, ast.Call) and p.resolve_expr(f.module, x.func, f) in _TYPE_TESTS and not any(x is o for o in open_value)
                            for x in ast.walk(y))]
            if other or open_other:
                raise UnknownIdiom('%s: `%s` is guarded by `%s`, which the partition of the arguments does not decide' % (
                    f.qual, short(n.ast, 60), short((other or open_other)[0], 60)))
            about = sorted({x.id for y in undecided for x in ast.walk(y) if isinstance(x, ast.Name) and x.id in types})
            verdict = verdict or ('some', ', '.join('%s %s' % (nm, 'None' if cell[nm] else 'a %s' % types[nm].rsplit('.', 1)[-1]) for nm in about), undecided[0])
        if verdict is None:
            run.ok(what, f.loc(n.ast), n.ast)
        else:
            kind, label, test = verdict
            why = 'is reached for %s' % label if kind == 'every' else 'is reached for %s depending on `%s`: a test of the VALUE of a documented argument' % (label, short(test, 60))
            run.fail(what, f, n.ast, where=f.loc(n.ast), witness=['`%s` %s' % (short(n.ast, 70), why)],
                     runtime_witness='an SSE emitter yields SSEvent(...) with such an argument (e.g. retry=0) after http.response.start was sent: the '
                                     'exception leaves App.__call__, the stream never gets its final body event (more_body false)')
        if isinstance(n.ast, ast.Raise) and n.ast.exc is not None:
            from .c13_helpers import raised_class
            q = raised_class(p, f, n.ast)
            if q:
                explained.add(q)
        elif isinstance(n.ast, ast.Assert):
            explained.add('builtins.AssertionError')
    if not sites:
        run.ok(what + ' (it raises nothing itself)', f.loc(), 'no raise')
    # anything a callee / a conversion may raise is not read by this rule
    summ = Escape(p).summary(f)
    hidden = sorted(k for k in summ if k not in explained)
    if hidden:
        raise UnknownIdiom('%s: may also raise %s (%s), which is not an explicit raise of the constructor' % (
            f.qual, hidden[0], '; '.join('%s %s' % w for w in summ[hidden[0]][:2])))


def check(run):
    run.assume('send/start_response are the server callables passed to __call__; every send site passes a dict display, a module '
               'constant, or a local bound to a dict display in __call__ (folded with its constant-key field stores)')
    run.assume('the server may keep a reference to an event handed to send and serialise it later (ASGI does not oblige send to '
               'copy); a status compared with a constant set is compared by value, whatever the constant is called')
    run.assume('hasattr() on the response stream does not raise')
    run.assume('a str/bytes status containing a space is a well-formed status line (value-level, not decided)')
    run.assume('custom Response subclasses honour the render_body contract')
    # floors: today's counts are R1 13 (protocol + freshness of the shared EOF constant + 11 send sites), R2 4, R3 20, R4 36, R5 17, R6 10, R7 10
    run.rule('R1', r1_asgi_protocol, 'ASGI HTTP event protocol (typestate over send); sent event objects are not modified', floor=9)
    run.rule('R2', r2_wsgi, 'WSGI: one start_response with normalised status and _wsgi_headers, body iterable returned', floor=4)
    run.rule('R3', r3_precedence, 'text > data > media in the three render siblings; stream only when the body is None', floor=18)
    run.rule('R4', r4_bodiless_typeless, 'bodiless/typeless status sets (by value) and branches; default content type', floor=26)
    run.rule('R5', r5_content_length, 'forced Content-Length equals the bytes sent on non-streamed, body-bearing paths; none computed for bodiless non-HEAD', floor=13)
    run.rule('R6', r6_close, 'response streams are closed exactly once on every exit, task cancellation at an await included', floor=9)
    run.rule('R7', r7_sse_and_status, 'SSE event framing; status-line shape', floor=9)
    # media is the last-precedence body source: what is sent for it is the cached rendition, which must belong to
    # the media currently assigned (shared with C12 R4)
    from . import c12 as _c12

    run.rule('R8', _c12.r4_render_cache, 'the rendered-media cache is reset by every writer of the media (shared with C12 R4)', floor=4)
    run.rule('R9', r9_body_bytes, "ASGI: the 'body' of a body event is never None (None chunks of the application's stream are normalised or excluded)", floor=3)
    run.rule('R10', r10_sse_stream, 'ASGI SSE: the emitter is validated before the response start; the disconnect watcher is cancelled before it is awaited', floor=2)
    run.rule('R11', r11_media_render, 'media rendering: the optional fast-path serializer is called only where present; the render cache is filled before it is read', floor=5)
    run.rule('R12', r12_native_header_values, 'raw header setters: caller-supplied values reach the header store through str()', floor=4)
    run.assume('an exception raised while the SSE emitter runs (event construction, serialize, the generator itself) after '
               'http.response.start propagates out of asgi.App.__call__: the framework has no handler there and does not send the final '
               'body event - closing such a stream is left to the server; R13 only keeps documented events from raising')
    from . import c04 as _c04

    run.rule('R14', _c04.r1_render_calls_protected, 'every call of the body renderer in __call__ is protected by `except Exception` -> '
             '_handle_exception: a rendering failure never leaves the app callable without a response start (shared with C04 R1)', floor=2)
    run.rule('R13', r13_sse_ctor, 'SSEvent.__init__ rejects only wrongly typed arguments: no value of a documented type raises in mid-stream', floor=6)
