"""C06 - WSGI / ASGI / test-client equivalence (DESIGN.md section 3, C06).

Decided: the parity obligations between the hand-duplicated siblings
(falcon.Request / falcon.asgi.Request, the two constructors, the test drivers).
"""

from __future__ import annotations

import ast
import re
from typing import Dict, List, Optional, Set, Tuple

from .. import flow
from ..cfg import cfg_of
from ..model import UNKNOWN, AnchorError, Func, UnknownIdiom, attr_chain, local_names, short, unparse, walk_no_nested
from .c08 import PQS, parse_qs_calls
from ..escape import TOTAL_CODECS as _TOTAL_CODECS
from .c09_helpers import LATIN1_TUNNELLED, derives_only_from, is_table_read
from .c09_helpers import (ASGI_REQ, HEADER_INPUTS, WSGI_REQ, CObj, ConcreteEval, CRaise, ReachingDefs, SiteEscape, Unreadable, assignments,
                          branch_facts, classes_of, effective_members, fact_value, factory_bindings, header_getter_kinds, is_public, kind_text,
                          node_defs, node_of, norm_header_key, split_key, table_of, unguarded_keys)
from .common import enclosing_map, is_self_attr, walk_self

# ---------------------------------------------------------------------------
# frozen tables
# ---------------------------------------------------------------------------

# members excluded from the accessor-parity rule R2, one reason each
R2_EXCLUDED: Dict[str, str] = {
    'env': 'ASGI has no WSGI environ: the property raises AttributeError by documented design',
    'log_error': 'ASGI has no wsgi.errors stream: log_error raises NotImplementedError by documented design',
    'get_media': 'coroutine on ASGI; media parity is decided by C12',
    'media': 'alias of get_media (C12)',
    'stream': 'body streams are decided by C07 (ASGI stream is a property, WSGI stream is the raw wsgi.input)',
    'bounded_stream': 'body streams are decided by C07 (R6: invalid Content-Length is mapped to 0 on WSGI only)',
}

# documented differences of the escape-set comparison: ASGI member -> WSGI
# members whose union it is compared with (reason), checked side condition below
R2_DERIVED_FROM: Dict[str, Tuple[Tuple[str, ...], str]] = {
    'remote_addr': (('remote_addr', 'access_route'),
                    'ASGI remote_addr is documented to derive from access_route (the last hop), WSGI reads REMOTE_ADDR'),
}

# option that only exists on WSGI and is outside C06's quantifier
FORM_OPTION = '_auto_parse_form_urlencoded'
FORM_CALLEE = WSGI_REQ + '._parse_form_urlencoded'


def _public_names(p, cq) -> List[str]:
    return sorted(n for n in effective_members(p, cq) if is_public(n))


# ---------------------------------------------------------------------------
# membership guards inside ONE expression
# ---------------------------------------------------------------------------

def _chain_text(e) -> Optional[str]:
    ch = attr_chain(e)
    return '.'.join(ch) if ch else None


def _member_facts(test, truth: bool) -> Set[Tuple[str, str]]:
    """(key text, mapping text) pairs `k in d` that HOLD when `test` evaluates
    to `truth`: `k in d` (true), `k not in d` / `not (k in d)` (false), every
    conjunct of a true `and`, every disjunct of a false `or`."""
    out: Set[Tuple[str, str]] = set()
    if isinstance(test, ast.UnaryOp) and isinstance(test.op, ast.Not):
        return _member_facts(test.operand, not truth)
    if isinstance(test, ast.BoolOp):
        if isinstance(test.op, ast.And) == truth:
            for v in test.values:
                out |= _member_facts(v, truth)
        return out
    if isinstance(test, ast.Compare) and len(test.ops) == 1 and isinstance(test.ops[0], (ast.In, ast.NotIn)):
        if isinstance(test.ops[0], ast.In) == truth:
            d = _chain_text(test.comparators[0])
            if d:
                out.add((short(test.left), d))
    return out


class GuardedSiteEscape(SiteEscape):
    """SiteEscape that also reads membership guards established INSIDE an
    expression: `d[k] if k in d else c`, `c if k not in d else d[k]`,
    `k in d and d[k]`, `k not in d or d[k]`.  A subscript `d[k]` evaluated only
    when `k in d` held for the same key text on the same mapping text cannot
    raise KeyError (the statement-level `if k in d:` / `if k not in d: return`
    forms are already read by the base class).  Nothing between the test and
    the subscript can run inside one expression except the operands themselves,
    so the fact cannot be invalidated unless an operand is a call that mutates
    the mapping - the same assumption the statement-level guard makes."""

    def _exempt(self, func: Func, node, exc: str) -> Optional[str]:
        r = super()._exempt(func, node, exc)
        if r is not None or not isinstance(node, ast.Call):
            return r
        # `.encode(<total codec>)` of a local every binding of which is the tunnelled table entry OR a constant the
        # codec can encode (`path = env['PATH_INFO']` ... `if not path: path = '/'`: the `or '/'` default written as a statement)
        f = node.func
        if isinstance(f, ast.Attribute) and f.attr == 'encode' and exc == 'builtins.UnicodeEncodeError' and node.args \
                and isinstance(node.args[0], ast.Constant) and isinstance(node.args[0].value, str) and node.args[0].value.lower() in _TOTAL_CODECS:
            hit: List[str] = []

            def pred(e):
                t = is_table_read(func, e, LATIN1_TUNNELLED)
                if t:
                    hit.append(t)
                    return True
                return isinstance(e, ast.Constant) and isinstance(e.value, str) and _try_encode(e.value, 'iso-8859-1') is not None

            if derives_only_from(func, f.value, pred, use_site=node) and hit:
                return hit[0]
            # the same inside a module-level helper that is handed the value (`helpers._decode_path(path)`): the
            # receiver is a parameter the helper never re-binds, and EVERY call of the helper in the package hands it
            # such a value (the summary of the helper is shared by all its callers)
            if isinstance(f.value, ast.Name) and func.cls is None and func.parent is None and f.value.id in func.params() \
                    and f.value.id not in assignments(func):
                sites = self._call_sites(func)
                idx = func.params().index(f.value.id)
                ok = bool(sites)
                for caller, call in sites:
                    if any(isinstance(a, ast.Starred) for a in call.args) or any(k.arg is None for k in call.keywords):
                        ok = False
                        break
                    arg = next((k.value for k in call.keywords if k.arg == f.value.id), call.args[idx] if idx < len(call.args) else None)
                    def cpred(e, caller=caller):
                        t = is_table_read(caller, e, LATIN1_TUNNELLED)
                        if t:
                            hit.append(t)
                            return True
                        return isinstance(e, ast.Constant) and isinstance(e.value, str) and _try_encode(e.value, 'iso-8859-1') is not None

                    if arg is None or not derives_only_from(caller, arg, cpred, use_site=call):
                        ok = False
                        break
                if ok and hit:
                    return hit[0] + ' (handed to %s by every caller)' % func.name
        return None

    def _call_sites(self, target: Func):
        """[(caller, call)] for every call in the package that resolves to the module-level function `target`."""
        cache = self.__dict__.setdefault('_sites_memo', {})
        if target.qual not in cache:
            out = []
            for g in self.p.funcs.values():
                if g is target:
                    continue
                for c in walk_no_nested(g.node):
                    if isinstance(c, ast.Call) and ((isinstance(c.func, ast.Attribute) and c.func.attr == target.name)
                                                    or (isinstance(c.func, ast.Name) and c.func.id == target.name)):
                        if self.p.resolve_callable(g, c.func) is target:
                            out.append((g, c))
            cache[target.qual] = out
        return cache[target.qual]

    def _expr(self, e, func, selfcls, handlers, out, store=False):
        if e is None:
            return
        if not any(isinstance(n, (ast.IfExp, ast.BoolOp)) for n in walk_self(e)):
            return super()._expr(e, func, selfcls, handlers, out, store)
        self._gexpr(e, func, selfcls, handlers, out)

    def _under(self, facts, e, func, selfcls, handlers, out):
        if facts:
            self._guards.append(facts)
            try:
                self._gexpr(e, func, selfcls, handlers, out)
            finally:
                self._guards.pop()
        else:
            self._gexpr(e, func, selfcls, handlers, out)

    def _gexpr(self, e, func, selfcls, handlers, out):
        if isinstance(e, ast.IfExp):
            self._gexpr(e.test, func, selfcls, handlers, out)
            self._under(_member_facts(e.test, True), e.body, func, selfcls, handlers, out)
            self._under(_member_facts(e.test, False), e.orelse, func, selfcls, handlers, out)
            return
        if isinstance(e, ast.BoolOp):
            facts: Set[Tuple[str, str]] = set()
            truth = isinstance(e.op, ast.And)   # a later operand runs when the earlier ones were all true (and) / all false (or)
            for v in e.values:
                self._under(set(facts), v, func, selfcls, handlers, out)
                facts |= _member_facts(v, truth)
            return
        if isinstance(e, ast.Call):
            self._call(e, func, selfcls, handlers, out)
        elif isinstance(e, ast.Attribute) and isinstance(e.ctx, ast.Load):
            self._attr_read(e, func, selfcls, handlers, out)
        elif isinstance(e, ast.Subscript) and isinstance(e.ctx, ast.Load):
            self._subscript(e, func, handlers, out)
        if isinstance(e, (ast.FunctionDef, ast.AsyncFunctionDef, ast.ClassDef, ast.Lambda)):
            return
        for ch in ast.iter_child_nodes(e):
            self._gexpr(ch, func, selfcls, handlers, out)


# ---------------------------------------------------------------------------
# R1 override completeness
# ---------------------------------------------------------------------------

def _init_attrs(f: Func) -> Set[str]:
    out = set()
    for n in walk_no_nested(f.node):
        if isinstance(n, (ast.Assign, ast.AnnAssign)):
            tg = n.targets if isinstance(n, ast.Assign) else [n.target]
            for t in tg:
                for x in ([t] if not isinstance(t, (ast.Tuple, ast.List)) else t.elts):
                    if isinstance(x, ast.Attribute) and isinstance(x.value, ast.Name) and x.value.id == 'self':
                        out.add(x.attr)
    return out


def _calls_super_init(f: Func) -> bool:
    for n in walk_no_nested(f.node):
        if (isinstance(n, ast.Call) and isinstance(n.func, ast.Attribute) and n.func.attr == '__init__'
                and isinstance(n.func.value, ast.Call) and isinstance(n.func.value.func, ast.Name) and n.func.value.func.id == 'super'):
            return True
    return False


def _always_raises(f: Func) -> Optional[str]:
    body = [s for s in f.node.body if not (isinstance(s, ast.Expr) and isinstance(s.value, ast.Constant))]
    if len(body) == 1 and isinstance(body[0], ast.Raise) and body[0].exc is not None:
        e = body[0].exc.func if isinstance(body[0].exc, ast.Call) else body[0].exc
        return short(e)
    return None


def _protected(func: Func, node, classes=('AttributeError', 'Exception', 'BaseException')) -> bool:
    """node sits in a try body with an arm catching AttributeError (or broader)."""
    def rec(cur, prot):
        if cur is node:
            return prot
        if isinstance(cur, ast.Try):
            catches = any(h.type is None or any(isinstance(x, ast.Name) and x.id in classes for x in walk_self(h.type)) for h in cur.handlers)
            for s in cur.body:
                r = rec(s, prot or catches)
                if r is not None:
                    return r
            for part in (cur.handlers, cur.orelse, cur.finalbody):
                for s in part:
                    r = rec(s, prot)
                    if r is not None:
                        return r
            return None
        for ch in ast.iter_child_nodes(cur):
            r = rec(ch, prot)
            if r is not None:
                return r
        return None

    return bool(rec(func.node, False))


def _override_completeness(run, p, base: str, sub: str):
    cb, cs = p.cls(base), p.cls(sub)
    if p.is_subclass(sub, base) is not True:
        raise AnchorError('%s does not derive from %s' % (sub, base))
    bi = cb.methods.get('__init__')
    si = p.lookup_method(sub, '__init__')
    if bi is None or si is None:
        raise AnchorError('constructors of %s / %s not found' % (base, sub))
    mem = effective_members(p, sub)
    if si is bi or _calls_super_init(si):
        base_only: Set[str] = set()
    else:
        have = _init_attrs(si) | set(mem)
        base_only = _init_attrs(bi) - have
    # members that the subclass replaces by an always-raising stub
    stubs = {}
    for n, m in mem.items():
        if m.owner == sub and m.func is not None:
            r = _always_raises(m.func)
            if r is not None:
                stubs[n] = r
    unavailable = set(base_only) | set(stubs)
    run.extra.setdefault('c06_r1', {})[sub] = {'state_never_initialised_on_subclass': sorted(base_only), 'raising_stubs': stubs}
    if not unavailable:
        raise AnchorError('%s: no base-only state and no raising stub found (constructor chaining changed?)' % sub)

    def touches(f: Func):
        out = []
        for n in ast.walk(f.node):
            if (isinstance(n, ast.Attribute) and isinstance(n.ctx, ast.Load) and isinstance(n.value, ast.Name) and n.value.id == 'self'
                    and n.attr in unavailable and not _protected(f, n)):
                out.append(n)
        return out

    def succ(f: Func) -> List[Tuple[str, Func]]:
        out = []
        for n in ast.walk(f.node):
            if isinstance(n, ast.Attribute) and isinstance(n.value, ast.Name) and n.value.id == 'self' and isinstance(n.ctx, ast.Load):
                m = mem.get(n.attr)
                if m is not None and m.func is not None:
                    out.append(('self.' + n.attr, m.func))
            elif (isinstance(n, ast.Attribute) and isinstance(n.value, ast.Call) and isinstance(n.value.func, ast.Name)
                  and n.value.func.id == 'super' and f.cls is not None):
                g = p.lookup_method(f.cls.qual, n.attr, after=f.cls.qual)
                if g is not None:
                    out.append(('super().' + n.attr, g))
        return out

    reported = set()
    for name in _public_names(p, sub):
        m = mem[name]
        if m.func is None or name in stubs:
            continue
        run.use(m.func)
        # BFS with parent pointers
        prev: Dict[str, Optional[Tuple[str, str]]] = {m.func.qual: None}
        funcs = {m.func.qual: m.func}
        queue = [m.func]
        bad = []
        while queue:
            f = queue.pop(0)
            for t in touches(f):
                bad.append((f, t))
            for how, g in succ(f):
                if g.qual not in prev:
                    prev[g.qual] = (f.qual, how)
                    funcs[g.qual] = g
                    queue.append(g)
        if not bad:
            run.ok('%s.%s: no reachable body reads state that only %s initialises (%s)' % (
                sub, name, base, ', '.join(sorted(unavailable))), m.func.loc(), '%s.%s' % (sub, name))
            continue
        for f, t in bad:
            key = (f.qual, 'self.' + t.attr)
            path = []
            cur = f.qual
            while prev.get(cur) is not None:
                pq, how = prev[cur]
                path.append('%s reads %s -> %s' % (pq, how, cur))
                cur = pq
            path.reverse()
            if key in reported:
                continue
            reported.add(key)
            why = ('replaced by a stub that raises %s' % stubs[t.attr]) if t.attr in stubs else 'never initialised by %s.__init__' % sub
            run.fail('%s.%s reaches %s, which reads self.%s (%s): the base implementation is not overridden' % (sub, name, f.qual, t.attr, why),
                     f, 'self.' + t.attr, where=f.loc(t), witness=['public member %s.%s' % (sub, name)] + path,
                     runtime_witness='req.%s on an ASGI request raises instead of returning a value' % name)


def r1_override_completeness(run):
    p = run.project
    _override_completeness(run, p, WSGI_REQ, ASGI_REQ)
    # each App references only its own stack's header emitter
    for mods, foreign, own in ((('falcon.asgi.',), '_wsgi_headers', '_asgi_headers'), (('falcon.app', 'falcon.app_helpers'), '_asgi_headers', '_wsgi_headers')):
        sites = []
        n_own = 0
        for f in p.all_functions():
            mn = f.module.name
            if not any(mn == m or (m.endswith('.') and mn.startswith(m)) for m in mods):
                continue
            for n in ast.walk(f.node):
                if isinstance(n, ast.Attribute) and n.attr == foreign and isinstance(n.ctx, ast.Load) and not (
                        isinstance(n.value, ast.Name) and n.value.id == 'self' and f.cls is not None and f.cls.qual == ASGI_REQ):
                    sites.append((f, n))
                if isinstance(n, ast.Call) and isinstance(n.func, ast.Attribute) and n.func.attr == own and not (
                        isinstance(n.func.value, ast.Name) and n.func.value.id == 'self'):
                    n_own += 1
        if n_own == 0:
            raise AnchorError('%s: no call of resp.%s() found' % ('/'.join(mods), own))
        if not sites:
            run.ok('%s* render response headers only through %s()' % ('/'.join(mods), own), '', own)
        for f, n in sites:
            run.fail('%s uses the other stack\'s header emitter %s()' % (f.qual, foreign), f, n,
                     runtime_witness='response headers in the wrong representation (str tuples vs lower-case byte pairs)')


# ---------------------------------------------------------------------------
# R2 accessor parity
# ---------------------------------------------------------------------------

def _form_call_guarded(p, run) -> bool:
    """Every call of _parse_form_urlencoded in the WSGI constructor is
    dominated by a true test of options._auto_parse_form_urlencoded."""
    f = p.func(WSGI_REQ + '.__init__')
    cfg = cfg_of(f, p)
    calls = [n for n in walk_no_nested(f.node) if isinstance(n, ast.Call) and isinstance(n.func, ast.Attribute)
             and n.func.attr == '_parse_form_urlencoded']
    if not calls:
        return False
    for c in calls:
        v = fact_value(cfg, node_of(cfg, c), lambda e: isinstance(e, ast.Attribute) and e.attr == FORM_OPTION)
        if v is not True:
            return False
    return True


def _pairs(p):
    mw, ma = effective_members(p, WSGI_REQ), effective_members(p, ASGI_REQ)
    names = sorted(n for n in set(mw) & set(ma) if is_public(n) and mw[n].func is not None and ma[n].func is not None)
    return mw, ma, names


def r2_accessor_parity(run):
    p = run.project
    mw, ma, names = _pairs(p)
    cw, ca = p.cls(WSGI_REQ), p.cls(ASGI_REQ)
    skip = {}
    if _form_call_guarded(p, run):
        skip[FORM_CALLEE] = ('deprecated WSGI-only option auto_parse_form_urlencoded is outside C06\'s quantifier; the call is '
                             'dominated by a true test of options.%s (checked)' % FORM_OPTION)
    E = GuardedSiteEscape(p, skip_callees=skip)
    if len(names) < 55:
        raise AnchorError('only %d public members are shared by the two request classes (expected >= 55)' % len(names))
    overridden = [n for n in names if ma[n].func is not mw[n].func]
    pure_delegates = {n for n in overridden if _delegates_to_super(ma[n].func, n)}
    if len(overridden) < 15 or '__init__' not in overridden:
        raise AnchorError('expected the ASGI request class to override the constructor and at least 15 accessors, found %d' % len(overridden))
    run.extra['c06_r2'] = {'overridden_pairs': overridden, 'excluded': {n: R2_EXCLUDED[n] for n in overridden if n in R2_EXCLUDED}}

    # ---- (c) escape-set parity, every public member, constructors included
    diffs: Dict[str, dict] = {}
    for n in names:
        if n in R2_EXCLUDED:
            continue
        fw, fa = mw[n].func, ma[n].func
        run.use(fw)
        run.use(fa)
        sa = E.summary(fa, ca)
        wnames = (n,)
        if n in R2_DERIVED_FROM:
            wnames, why = R2_DERIVED_FROM[n]
            # side condition: the ASGI body really reads the member it is documented to derive from
            src = [x for x in wnames if x != n]
            if not all(any(is_self_attr(y, s) for y in walk_no_nested(fa.node)) for s in src):
                wnames = (n,)
        sw = {}
        for wn in wnames:
            if wn not in mw or mw[wn].func is None:
                raise AnchorError('%s.%s not found' % (WSGI_REQ, wn))
            sw.update(E.summary(mw[wn].func, cw))
        kw, ka = classes_of(sw), classes_of(sa)
        for k in kw | ka:
            if k.startswith('?'):
                raise UnknownIdiom('%s raises an expression of unknown class: %s' % (n, k))
        if kw == ka:
            run.ok('escape sets of %s.%s and %s.%s are equal: {%s}' % (WSGI_REQ, n, ASGI_REQ, n, ', '.join(sorted(x.rsplit('.', 1)[-1] for x in kw))),
                   fa.loc(), n)
            continue
        for side, only, summ, other in (('ASGI', ka - kw, sa, 'WSGI'), ('WSGI', kw - ka, sw, 'ASGI')):
            for key, chain in summ.items():
                cls, org = split_key(key)
                if cls in only:
                    d = diffs.setdefault((side, org), {'cls': set(), 'chain': chain, 'members': [], 'other': other})
                    d['cls'].add(cls)
                    d['members'].append(n)
                    if len(chain) < len(d['chain']):
                        d['chain'] = chain
    for (side, org) in sorted(diffs):
        d = diffs[(side, org)]
        o = d['chain'][-1]
        cl = '/'.join(sorted(x.rsplit('.', 1)[-1] for x in d['cls']))
        run.fail('%s raised here can escape the %s request member(s) %s but not the %s sibling(s): the two stacks differ on such a request' % (
            cl, side, ', '.join(sorted(set(d['members']))), d['other']),
            p.funcs.get(getattr(o, 'fq', ''), getattr(o, 'fq', '?')), getattr(o, 'cons', org), where=o[0],
            witness=['%s  %s' % (w[0], w[1]) for w in d['chain']],
            runtime_witness='the same HTTP request served by the WSGI and the ASGI app: one stack raises %s from req.%s, the other does not' % (cl, sorted(set(d['members']))[0]))
    run.extra['c06_r2']['escape'] = {'conversion_sites': E.sites_seen, 'calls_resolved': E.calls_resolved, 'exemptions_used': E.exempt_used}

    # ---- (a) consulted header keys and their precedence, (b) raised errors, (d) fall-back results of plain header accessors
    kind_diffs: Set[tuple] = set()
    for n in overridden:
        if n in R2_EXCLUDED:
            continue
        fw, fa = mw[n].func, ma[n].func
        if n in pure_delegates:
            run.ok('%s.%s only forwards to the base implementation' % (ASGI_REQ, n), fa.loc(), n)
            continue
        if mw[n].kind == 'factory' or ma[n].kind == 'factory':
            # factory-built on one or both stacks: the factory's getter is expanded with
            # the call's constant arguments bound (hand-written siblings are read as they are)
            kw_ = _accessor_key(p, mw[n], 'environ')
            ka_ = _accessor_key(p, ma[n], 'asgi-headers')
            afn, acons, awhere = _accessor_site(p, ma[n])
            run.check(kw_ is not None and kw_ == ka_, 'header property %s reads the same header on both stacks' % n,
                      afn, acons if ma[n].kind == 'factory' else 'header(%s): %s vs %s' % (n, fw.qual, fa.qual), where=awhere,
                      witness=['WSGI %r' % kw_, 'ASGI %r' % ka_], runtime_witness='req.%s differs between the stacks for the same request' % n)
            _result_kind_parity(run, p, n, mw[n], ma[n], kw_, True, kind_diffs)
            continue
        rw, ra = _consult_relation(p, fw), _consult_relation(p, fa)
        if (rw[0] or ra[0]) and rw[:2] != ra[:2] and (rw[2] or ra[2]):
            raise UnknownIdiom('%s: header keys are computed (not constant) on one stack; consulted-header parity cannot be read off' % n)
        if rw[0] or ra[0]:
            ok = rw[:2] == ra[:2]
            run.check(ok, '%s: both stacks consult the same headers in the same order of preference' % n, fa, 'header-precedence(%s): %s vs %s' % (n, fw.qual, fa.qual),
                      where=fa.loc(), witness=['WSGI %s: keys %s precedence %s' % (fw.qual, sorted(rw[0]), sorted(rw[1])),
                                               'ASGI %s: keys %s precedence %s' % (fa.qual, sorted(ra[0]), sorted(ra[1]))],
                      runtime_witness='a request carrying two of these headers with conflicting values is read differently by the two stacks')
        # only raises that carry a header-name argument are compared here (classes are
        # already compared transitively by (c)); a body without any delegates and is skipped
        ew = {x for x in _raised(p, fw) if x[1] is not None}
        ea = {x for x in _raised(p, fa) if x[1] is not None}
        if ew and ea:
            run.check(ew == ea, '%s: both stacks raise the same error classes with the same header-name arguments' % n, fa, 'raised-errors(%s): %s vs %s' % (n, fw.qual, fa.qual),
                      where=fa.loc(), witness=['WSGI %s' % sorted(ew), 'ASGI %s' % sorted(ea)],
                      runtime_witness='the same invalid header is answered with different errors on the two stacks')
        # (d, restricted) two hand-written plain accessors of the same single header
        if len(rw[0]) == 1 and rw[0] == ra[0] and not (rw[2] or ra[2]):
            _result_kind_parity(run, p, n, mw[n], ma[n], next(iter(rw[0])), False, kind_diffs)


def _delegates_to_super(f: Func, name: str) -> bool:
    body = [s for s in f.node.body if not (isinstance(s, ast.Expr) and isinstance(s.value, ast.Constant))]
    if len(body) != 1 or not isinstance(body[0], (ast.Return, ast.Expr)):
        return False
    v = body[0].value
    while isinstance(v, ast.Await):
        v = v.value
    return (isinstance(v, ast.Call) and isinstance(v.func, ast.Attribute) and v.func.attr == name and isinstance(v.func.value, ast.Call)
            and isinstance(v.func.value.func, ast.Name) and v.func.value.func.id == 'super')


def _factory_key(p, m, kind) -> Optional[str]:
    call = m.node.value if m.node is not None and hasattr(m.node, 'value') else None
    if not (isinstance(call, ast.Call) and call.args):
        raise UnknownIdiom('factory property %s: call shape' % m.name)
    c = p.cls(m.owner)
    v = p.fold(c.module, call.args[0], c)
    if not isinstance(v, str):
        raise UnknownIdiom('factory property %s: header name is not constant' % m.name)
    if kind == 'environ':
        return norm_header_key('environ', v)
    return v.lower()


def _accessor_key(p, m, kind) -> Optional[str]:
    """The one header an accessor reads: the factory's constant name argument,
    or the single constant key a hand-written getter consults."""
    if m.kind == 'factory':
        return _factory_key(p, m, kind)
    keys, _rel, computed = _consult_relation(p, m.func)
    if computed or len(keys) != 1:
        raise UnknownIdiom('%s: the sibling is a factory-built header property, but this getter consults %s'
                           % (m.func.qual, 'a computed key' if computed else '%d headers' % len(keys)))
    return next(iter(keys))


def _accessor_site(p, m):
    """(function or qualified name, construct, where) to report an accessor at."""
    if m.kind == 'factory' and m.node is not None:
        c = p.cls(m.owner)
        return c.qual + '.' + m.name, m.node, c.loc(m.node)
    return m.func, m.func.node, m.func.loc()


def _getter_of(p, m):
    if m.kind == 'factory':
        _fac, getter, env = factory_bindings(p, p.cls(m.owner), getattr(m.node, 'value', None))
        return getter, env
    if m.func is not None and m.func.is_property():
        return m.func, {}
    raise Unreadable('%s.%s is not a property' % (m.owner, m.name))


def _result_kind_parity(run, p, n, mwn, man, header, strict: bool, reported: Set[tuple]):
    """R2(d), restricted to what is exact: for a plain header accessor the
    result is None, a constant or the header value, as a function of the
    header being missing / present but blank / present and non-blank.  The
    two siblings must agree on every one of the three input classes.

    strict: one sibling is factory-built - an unreadable getter is an unknown
    idiom.  Otherwise (two hand-written getters) the obligation exists only
    when both are plain header accessors."""
    try:
        gw, envw = _getter_of(p, mwn)
        ga, enva = _getter_of(p, man)
        kw = header_getter_kinds(p, gw, envw)
        ka = header_getter_kinds(p, ga, enva)
    except Unreadable as e:
        if strict:
            raise UnknownIdiom('%s: factory-built header property whose getter (or its sibling) is not a plain header accessor: %s' % (n, e))
        return
    run.assume('R2(d) is decided only for plain single-header accessors (table lookup, decode, `or <constant>`, try/except KeyError): '
               'result kind None / constant / header value on {header missing, blank, non-blank}')
    diff = [c for c in HEADER_INPUTS if kw[c] != ka[c]]
    if diff:
        # one defect of a factory pair is reported once, at the first accessor built by it
        ident = (gw.qual, ga.qual, tuple(kw[c] for c in HEADER_INPUTS), tuple(ka[c] for c in HEADER_INPUTS))
        if ident in reported:
            return
        reported.add(ident)
    afn, _cons, awhere = _accessor_site(p, man)
    wit = ['header %s: WSGI %s -> %s; ASGI %s -> %s' % (c, gw.qual, kind_text(kw[c]), ga.qual, kind_text(ka[c])) for c in HEADER_INPUTS]
    rt = None
    if diff:
        c = diff[0]
        rt = 'a request whose %s header is %s: req.%s is %s on WSGI and %s on ASGI' % (
            header or n, {'missing': 'missing', 'blank': 'present but blank', 'non-blank': 'present and non-blank'}[c], n,
            kind_text(kw[c]), kind_text(ka[c]))
    run.check(not diff, 'req.%s falls back to the same result (None / the same constant / the header value) on both stacks when the header is '
                        'missing, blank or non-blank' % n, afn, 'result-kinds(%s): %s vs %s' % (n, gw.qual, ga.qual), where=awhere,
              witness=wit, runtime_witness=rt)


def _consults(p, f: Func):
    """[(ast node, header key)] for constant-key reads of the header table."""
    out = []
    for n in walk_no_nested(f.node):
        tbl = key = None
        if isinstance(n, ast.Subscript) and isinstance(n.ctx, ast.Load):
            tbl, key = table_of(f, n.value), n.slice
        elif isinstance(n, ast.Compare) and len(n.ops) == 1 and isinstance(n.ops[0], (ast.In, ast.NotIn)):
            tbl, key = table_of(f, n.comparators[0]), n.left
        elif isinstance(n, ast.Call) and isinstance(n.func, ast.Attribute) and n.func.attr in ('get', 'pop') and n.args:
            tbl, key = table_of(f, n.func.value), n.args[0]
        elif (isinstance(n, ast.Call) and isinstance(n.func, ast.Attribute) and n.func.attr.startswith('get_header') and n.args
              and isinstance(n.func.value, ast.Name) and n.func.value.id == 'self' and isinstance(n.args[0], ast.Constant)
              and isinstance(n.args[0].value, str)):
            out.append((n, n.args[0].value.lower()))
            continue
        if tbl is None:
            continue
        if not isinstance(key, ast.Constant):
            if tbl[0] in ('environ', 'asgi-headers'):
                out.append((n, None))  # a computed key: the set of consulted headers is not syntactic
            continue
        hk = norm_header_key(tbl[0], key.value)
        if hk is not None:
            out.append((n, hk))
    return out


def _consult_relation(p, f: Func):
    cons = _consults(p, f)
    computed = any(k is None for _n, k in cons)
    cons = [(n, k) for n, k in cons if k is not None]
    if not cons:
        return (frozenset(), frozenset(), computed)
    cfg = cfg_of(f, p)
    by_key: Dict[str, Set[int]] = {}
    for n, k in cons:
        by_key.setdefault(k, set()).add(node_of(cfg, n))
    rel = set()
    for a in by_key:
        for b in by_key:
            if a != b and all(flow.dominated_by_nodes(cfg, nb, by_key[a]) for nb in by_key[b]) and not all(
                    flow.dominated_by_nodes(cfg, na, by_key[b]) for na in by_key[a]):
                rel.add((a, b))
    return (frozenset(by_key), frozenset(rel), computed)


def _raised(p, f: Func):
    out = set()
    params = f.params()
    for n in walk_no_nested(f.node):
        if not (isinstance(n, ast.Raise) and n.exc is not None):
            continue
        e = n.exc.func if isinstance(n.exc, ast.Call) else n.exc
        q = p.resolve_expr(f.module, e, f)
        if q is None:
            continue
        hdr = None
        if isinstance(n.exc, ast.Call) and q in p.classes:
            init = p.lookup_method(q, '__init__')
            if init is not None and 'header_name' in init.params():
                ips = init.params()[1:]
                given = dict(zip(ips, n.exc.args))
                given.update({k.arg: k.value for k in n.exc.keywords if k.arg})
                a = given.get('header_name')
                if isinstance(a, ast.Constant):
                    hdr = str(a.value).lower()
                elif isinstance(a, ast.Name) and a.id in params:
                    hdr = 'param#%d' % params.index(a.id)
                elif a is not None:
                    hdr = short(a)
        out.add((q, hdr))
    return out


# ---------------------------------------------------------------------------
# R3 constructor parity
# ---------------------------------------------------------------------------

_STRIP = '<v>[:-1]'
_OPT_ATOM = ('options.strip_url_path_trailing_slash', True)
_ENDS_ATOM = ("<v>.endswith('/')", True)


def _strip_step(p, f: Func):
    """(guard atoms, transformation, statement) of the one rebinding of the path
    that is the trailing-slash strip: read off the path pipeline (R13), so the
    strip may be written on the local or on self.path, with nested or joined
    guards.  A rebinding under the option that is not `[:-1]` is returned as it
    is, so that the parity check can compare the two siblings."""
    pl = _Pipeline(p, f, 'path')
    cands = [s for s in pl.steps if s[1] == _STRIP or _OPT_ATOM in s[0]]
    if len(cands) != 1:
        raise UnknownIdiom('%s: expected one rebinding of the path that strips a trailing slash (`<path>[:-1]`, or any rebinding under '
                           'options.strip_url_path_trailing_slash), found %d' % (f.qual, len(cands)))
    return cands[0]


def _parse_qs_option_parity(run, p):
    """Both request constructors hand parse_query_string the request options
    keep_blank_qs_values / auto_parse_qs_csv of the request's own options object
    (the obligations of C08 R5, read through a local that IS self.options:
    `self.options = options` ... `keep_blank=options.keep_blank_qs_values`)."""
    target = p.func(PQS)
    tparams = target.params()
    calls = parse_qs_calls(p)
    owners = {f.cls.qual for f, _c in calls}
    if owners == {WSGI_REQ}:
        # one shared method of the base class parses for both stacks (`self._params = self._parse_params(qs)` in both
        # constructors): the ASGI constructor must reach it through a member it inherits
        fa = p.func(ASGI_REQ + '.__init__')
        mem = effective_members(p, ASGI_REQ)
        parsing = {f.qual for f, _c in calls}
        if any(isinstance(n, ast.Call) and isinstance(n.func, ast.Attribute) and isinstance(n.func.value, ast.Name) and n.func.value.id == 'self'
               and n.func.attr in mem and mem[n.func.attr].func is not None and mem[n.func.attr].func.qual in parsing for n in walk_no_nested(fa.node)):
            owners = {WSGI_REQ, ASGI_REQ}
            for kw in ('keep_blank', 'csv'):
                run.ok('the ASGI constructor parses the query string through the inherited base-class method that the WSGI constructor uses: '
                       '%s is whatever that call passes (judged there)' % kw, fa.loc(), 'shared parse_query_string call: %s' % kw)
    if not calls or owners != {WSGI_REQ, ASGI_REQ}:
        raise AnchorError('expected parse_query_string calls in both request classes, found %d' % len(calls))
    want = {'keep_blank': 'self.options.keep_blank_qs_values', 'csv': 'self.options.auto_parse_qs_csv'}
    rds: Dict[str, ReachingDefs] = {}
    for f, c in calls:
        run.use(f)
        given = dict(zip(tparams, c.args))
        given.update({k.arg: k.value for k in c.keywords if k.arg})
        nid = node_of(cfg_of(f, p), c)
        for kw, expr in sorted(want.items()):
            if kw not in tparams:
                raise AnchorError('%s has no parameter %s' % (PQS, kw))
            got = given.get(kw)
            text = short(got) if got is not None else None
            ch = attr_chain(got) if got is not None else None
            if ch is not None and len(ch) >= 2 and ch[0] != 'self':
                ch = self_chain_at(p, f, rds.setdefault(f.qual, ReachingDefs(cfg_of(f, p))), ch, nid)
                if ch[0] == 'self':
                    text = '.'.join(ch)
            run.check(text == expr, '%s passes %s=%s to parse_query_string' % (f.qual, kw, expr), f, c,
                      witness=['%s=%s' % (kw, short(got) if got is not None else '<default False>')],
                      runtime_witness='the request option %s has no (or the wrong) effect on this stack' % expr.rsplit('.', 1)[-1])


def r3_constructor_parity(run):
    p = run.project
    fw, fa = p.func(WSGI_REQ + '.__init__'), p.func(ASGI_REQ + '.__init__')
    res = {}
    pre = {}
    for f in (fw, fa):
        pre[f.qual] = _strip_step(p, f)
    kinds = {q: st[1].replace(V, '<path>') for q, st in pre.items()}
    if kinds.get(fw.qual) != kinds.get(fa.qual):
        if not (pre[fw.qual][3] and pre[fa.qual][3]):
            raise UnknownIdiom('the constructors rebind the path under strip_url_path_trailing_slash as %s and %s; the rule cannot decide whether '
                               'these are the same function' % (kinds.get(fw.qual), kinds.get(fa.qual)))
        odd = fa if kinds.get(fa.qual) != '<path>[:-1]' else fw
        run.fail('the two constructors transform the request path differently under strip_url_path_trailing_slash '
                 '(%s: %s; %s: %s): the same request is routed differently by the two stacks' % (
                     fw.qual, kinds.get(fw.qual), fa.qual, kinds.get(fa.qual)), odd, pre[odd.qual][2],
                 runtime_witness="GET /items// with the option on: one stack sees '/items/', the other '/items'")
        return
    if kinds.get(fw.qual) != '<path>[:-1]':
        raise UnknownIdiom('both constructors transform the path as %s; the strip guard rule does not understand that shape' % kinds.get(fw.qual))
    for f in (fw, fa):
        run.use_cfg(cfg_of(f, p))
        atoms, _t, st, _simple = pre[f.qual]
        res[f.qual] = atoms
        holds = {_OPT_ATOM, _ENDS_ATOM} <= atoms
        if not holds and any(V in a and not _KNOWN_ATOM.fullmatch(a) for a, _tr in atoms):
            raise UnknownIdiom('%s: guard {%s} of the trailing-slash strip' % (f.qual, _guard_text(atoms)))
        run.check(holds,
                  '%s strips one trailing slash only when options.strip_url_path_trailing_slash is set and the path ends with "/"' % f.qual, f, st,
                  witness=['guards established: %s' % (_guard_text(atoms).replace(V, '<path>') or 'none')],
                  runtime_witness='a path is shortened although the option is off (or does not end with a slash)')
    differ = _guards_differ('trailing-slash strip', res[fw.qual], _STRIP, res[fa.qual], _STRIP)
    run.check(not differ, 'both constructors guard the trailing-slash strip with the same conditions', fa, 'strip-guard: %s vs %s' % (fw.qual, fa.qual),
              where=fa.loc(), witness=['%s: %s' % (k, _guard_text(v).replace(V, '<path>')) for k, v in res.items()],
              runtime_witness='the path "/" (or "//") is routed differently by the two stacks when strip_url_path_trailing_slash is on')
    _parse_qs_option_parity(run, p)
    # content_type from the same header
    keys = {}
    for f, kind in ((fw, 'environ'), (fa, 'asgi-headers')):
        ks = set()
        found = False
        for n in walk_no_nested(f.node):
            if isinstance(n, (ast.Assign, ast.AnnAssign)) and n.value is not None:
                tg = n.targets if isinstance(n, ast.Assign) else [n.target]
                if any(is_self_attr(t, 'content_type') for t in tg):
                    found = True
                    for x in walk_self(n.value):
                        if isinstance(x, ast.Subscript) and isinstance(x.slice, ast.Constant):
                            t = table_of(f, x.value)
                            if t is not None:
                                hk = norm_header_key(t[0], x.slice.value)
                                ks.add(hk if hk is not None else '%s[%r]' % (t[0], x.slice.value))
                        elif isinstance(x, ast.Call) and isinstance(x.func, ast.Attribute) and x.func.attr == 'get' and x.args and isinstance(x.args[0], ast.Constant):
                            t = table_of(f, x.func.value)
                            if t is not None:
                                hk = norm_header_key(t[0], x.args[0].value)
                                ks.add(hk if hk is not None else '%s[%r]' % (t[0], x.args[0].value))
                    for x in walk_self(n.value):
                        if (isinstance(x, ast.Call) and isinstance(x.func, ast.Attribute) and x.func.attr.startswith('get_header') and x.args
                                and isinstance(x.args[0], ast.Constant) and isinstance(x.args[0].value, str)):
                            ks.add(x.args[0].value.lower())
        if not found:
            raise AnchorError('%s: no assignment to self.content_type' % f.qual)
        if not ks:
            raise UnknownIdiom('%s: the source of self.content_type is not a constant-key header lookup' % f.qual)
        keys[f.qual] = ks
    run.check(keys[fw.qual] == keys[fa.qual] and bool(keys[fa.qual]), 'both constructors derive content_type from the same header', fa, 'content-type-source: %s vs %s' % (fw.qual, fa.qual),
              where=fa.loc(), witness=['%s: %s' % (k, sorted(v)) for k, v in keys.items()])


# ---------------------------------------------------------------------------
# R5 driver tables
# ---------------------------------------------------------------------------

def _unconditional_keys(p, f: Func, table_name: Optional[str] = None, depth=0) -> Tuple[Set[object], str]:
    """Keys that are in the returned (or given) dict on every normal exit of f."""
    cfg = cfg_of(f, p)
    if table_name is None:
        rets = [n for n in walk_no_nested(f.node) if isinstance(n, ast.Return) and n.value is not None]
        names = {n.value.id for n in rets if isinstance(n.value, ast.Name)}
        if len(names) != 1 or len(rets) != len([n for n in rets if isinstance(n.value, ast.Name)]):
            raise UnknownIdiom('%s: does not return one dict local' % f.qual)
        table_name = next(iter(names))
    keys: Set[object] = set()

    def always(nid) -> bool:
        return flow.find_path(cfg, [cfg.entry], [cfg.exit], avoid_nodes=[nid]) is None

    def kfold(e):
        v = p.fold(f.module, e, None, f)
        if v is UNKNOWN:
            return None
        return getattr(v, 'value', v)

    for n in cfg.live_nodes():
        if n.kind != 'stmt' or n.copy:
            continue
        a = n.ast
        if isinstance(a, (ast.Assign, ast.AnnAssign)) and a.value is not None:
            tg = a.targets if isinstance(a, ast.Assign) else [a.target]
            for t in tg:
                if isinstance(t, ast.Name) and t.id == table_name and isinstance(a.value, ast.Dict) and always(n.id):
                    for k in a.value.keys:
                        kv = kfold(k) if k is not None else None
                        if kv is not None:
                            keys.add(kv)
                if isinstance(t, ast.Subscript) and isinstance(t.value, ast.Name) and t.value.id == table_name and always(n.id):
                    kv = kfold(t.slice)
                    if kv is not None:
                        keys.add(kv)
        elif isinstance(a, ast.Expr) and isinstance(a.value, ast.Call) and always(n.id):
            c = a.value
            if isinstance(c.func, ast.Attribute) and isinstance(c.func.value, ast.Name) and c.func.value.id == table_name and c.func.attr == 'setdefault' and c.args:
                kv = kfold(c.args[0])
                if kv is not None:
                    keys.add(kv)
            elif depth < 2:
                g = p.resolve_callable(f, c.func)
                if isinstance(g, Func):
                    for i, arg in enumerate(c.args):
                        if isinstance(arg, ast.Name) and arg.id == table_name and i < len(g.params()):
                            sub, _ = _unconditional_keys(p, g, g.params()[i], depth + 1)
                            keys |= sub
        elif isinstance(a, ast.Delete) :
            for t in a.targets:
                if isinstance(t, ast.Subscript) and isinstance(t.value, ast.Name) and t.value.id == table_name:
                    kv = kfold(t.slice)
                    keys.discard(kv)
    return keys, table_name


def _key_forms(p, f: Func, key_expr, nid, name_sources, rd, caches=(), depth=0) -> Set[str]:
    """Canonical texts of a table key with the header-name variable written N."""
    if depth > 6:
        return {'?'}

    def sub(e, at):
        if isinstance(e, ast.Name):
            if e.id in caches:
                return {e.id}
            ds = rd.at(at, e.id)
            if not ds:
                return {e.id}
            out = set()
            for d in ds:
                if name_sources(d):
                    out.add('N')
                elif d.value is not None:
                    at2 = _stmt_node(rd.cfg, d.stmt)
                    out |= _key_forms(p, f, d.value, at2, name_sources, rd, caches, depth + 1)
                else:
                    out.add('?')
            return out
        if isinstance(e, ast.Constant):
            return {repr(e.value)}
        if isinstance(e, ast.Call) and isinstance(e.func, ast.Attribute):
            recv = sub(e.func.value, at)
            args = [sub(a, at) for a in e.args]
            out = set()
            for r in recv:
                combos = [[]]
                for a in args:
                    combos = [c + [x] for c in combos for x in a]
                for c in combos:
                    out.add('%s.%s(%s)' % (r, e.func.attr, ', '.join(c)))
            return out
        if isinstance(e, ast.BinOp) and isinstance(e.op, ast.Add):
            return {'%s + %s' % (l, r) for l in sub(e.left, at) for r in sub(e.right, at)}
        if isinstance(e, ast.Subscript) and isinstance(e.value, ast.Name) and e.value.id in caches:
            # memo table read: what was stored under the same key
            out = set()
            for n in walk_no_nested(f.node):
                if isinstance(n, ast.Assign):
                    for t in n.targets:
                        if isinstance(t, ast.Subscript) and isinstance(t.value, ast.Name) and t.value.id == e.value.id:
                            out |= _key_forms(p, f, n.value, _stmt_node(rd.cfg, n), name_sources, rd, (), depth + 1)
            return out or {'?'}
        return {short(e)}

    return sub(key_expr, nid)


def _stmt_node(cfg, stmt) -> int:
    ids = cfg.nodes_for(stmt)
    ids = [i for i in ids if not cfg.node(i).copy] or ids
    if not ids:
        raise AnchorError('%s: statement without CFG node' % cfg.func.qual)
    return ids[0]


def r5_driver_tables(run):
    p = run.project
    # ---- (i) keys read unguarded by the request classes are always written by the test drivers
    for cq, kind, driver, extra_funcs in (
            (WSGI_REQ, 'environ', 'falcon.testing.helpers.create_environ', ()),
            (ASGI_REQ, 'scope', 'falcon.testing.helpers.create_scope', ('falcon.asgi.app.App.__call__',))):
        E = GuardedSiteEscape(p, use_exemptions=False)
        c = p.cls(cq)
        summs = []
        for f in list(c.methods.values()) + [p.func(q) for q in extra_funcs]:
            run.use(f)
            summs.append(E.summary(f, c if f.cls is c else None))
        d = p.func(driver)
        run.use_cfg(cfg_of(d, p))
        written, tname = _unconditional_keys(p, d)
        reads = {k: v for k, v in unguarded_keys(E, summs).items() if k[0] == kind}
        if len(reads) < 4:
            raise AnchorError('%s: fewer than 4 unguarded %s keys found (%s)' % (cq, kind, sorted(k[1] for k in reads)))
        run.extra.setdefault('c06_r5', {})[driver] = {'written_unconditionally': sorted(map(str, written)), 'read_unguarded': sorted(str(k[1]) for k in reads)}
        for (_k, key), sites in sorted(reads.items(), key=lambda kv: str(kv[0][1])):
            run.check(key in written, '%s key %r, read without a KeyError guard by the request class, is written unconditionally by %s' % (kind, key, driver.rsplit('.', 1)[-1]),
                      d, '%s[%r]' % (tname, key), where=d.loc(), witness=['read at: ' + ', '.join(sites[:4])],
                      runtime_witness='simulate_request() builds a %s without %r and the request class raises KeyError' % (kind, key))
    # ---- (ii) the drivers mangle header names exactly as get_header looks them up
    for cq, kind, helper in ((WSGI_REQ, 'environ', 'falcon.testing.helpers._add_headers_to_environ'),
                             (ASGI_REQ, 'asgi-headers', 'falcon.testing.helpers._add_headers_to_scope')):
        g = effective_members(p, cq).get('get_header')
        if g is None or g.func is None:
            raise AnchorError('%s.get_header not found' % cq)
        gf = g.func
        h = p.func(helper)
        run.use(gf)
        run.use(h)
        gcfg, hcfg = cfg_of(gf, p), cfg_of(h, p)
        grd, hrd = ReachingDefs(gcfg), ReachingDefs(hcfg)
        gname = gf.params()[1]
        caches = tuple(a.arg for a, dflt in zip(gf.node.args.args[len(gf.node.args.args) - len(gf.node.args.defaults):], gf.node.args.defaults) if isinstance(dflt, ast.Dict))

        def g_src(d, gname=gname):
            return d.how == 'param' and d.name == gname

        reader: Set[str] = set()
        for n in walk_no_nested(gf.node):
            if isinstance(n, ast.Subscript) and isinstance(n.ctx, ast.Load):
                t = table_of(gf, n.value)
                if t is not None and t[0] == kind:
                    reader |= _key_forms(p, gf, n.slice, node_of(gcfg, n), g_src, grd, caches)
        # helper: the loop over (name, value) items
        loops = [n for n in walk_no_nested(h.node) if isinstance(n, ast.For) and isinstance(n.target, ast.Tuple) and len(n.target.elts) == 2
                 and isinstance(n.target.elts[0], ast.Name)]
        if len(loops) != 1:
            raise UnknownIdiom('%s: expected one loop over (name, value) items' % helper)
        hname = loops[0].target.elts[0].id

        def h_src(d, hname=hname, lp=loops[0]):
            return d.how == 'for-unpack' and d.name == hname and d.stmt is lp and d.index == 0

        writer: Set[str] = set()
        tparam = h.params()[0]
        for n in walk_no_nested(loops[0]):
            if kind == 'environ':
                if isinstance(n, (ast.Assign, ast.AugAssign)):
                    for t in (n.targets if isinstance(n, ast.Assign) else [n.target]):
                        if isinstance(t, ast.Subscript) and isinstance(t.value, ast.Name) and t.value.id == tparam:
                            writer |= _key_forms(p, h, t.slice, _stmt_node(hcfg, n), h_src, hrd)
            else:
                if isinstance(n, ast.Call) and isinstance(n.func, ast.Attribute) and n.func.attr == 'append' and n.args:
                    a = n.args[0]
                    if isinstance(a, ast.Call) and isinstance(a.func, ast.Name) and a.func.id in ('iter', 'tuple', 'list') and a.args:
                        a = a.args[0]
                    if isinstance(a, (ast.List, ast.Tuple)) and len(a.elts) == 2:
                        writer |= _key_forms(p, h, a.elts[0], node_of(hcfg, n), h_src, hrd)
        if not reader or not writer:
            raise AnchorError('%s / %s: header key expressions not found' % (gf.qual, helper))
        if any('?' in x for x in writer | reader):
            raise UnknownIdiom('%s / %s: header key expression not understood: %s' % (gf.qual, helper, sorted(x for x in writer | reader if '?' in x)))
        run.check(writer <= reader,
                  'every header key written by %s has a form that %s.get_header looks up (normalised expressions)' % (helper.rsplit('.', 1)[-1], cq), h, 'header-key-forms(%s)' % kind,
                  where=h.loc(), witness=['driver writes %s' % sorted(writer), 'get_header reads %s' % sorted(reader)],
                  runtime_witness='simulate_request(headers={"X-Foo": ...}) stores the header under a key get_header("X-Foo") never reads')
        if kind == 'environ':
            # the un-prefixed content headers: same set on both sides
            def const_sets(f):
                out = []
                for n in walk_no_nested(f.node):
                    if isinstance(n, ast.Compare) and len(n.ops) == 1 and isinstance(n.ops[0], (ast.In, ast.NotIn)):
                        v = p.fold(f.module, n.comparators[0], None, f)
                        if isinstance(v, (tuple, list, frozenset, set)) and v and all(isinstance(x, str) and x.isupper() for x in v):
                            out.append(frozenset(v))
                return out
            a, b = const_sets(gf), const_sets(h)
            if not a or not b:
                raise UnknownIdiom('content-header name sets not found in %s / %s' % (gf.qual, helper))
            run.check(set(a) == set(b), 'the set of CGI content headers stored without the HTTP_ prefix is the same in the driver and in get_header', h,
                      'content-header-set', where=h.loc(), witness=['get_header %s' % [sorted(x) for x in a], 'driver %s' % [sorted(x) for x in b]])


# ---------------------------------------------------------------------------
# R6 access_route: the connecting peer is appended under the same condition
# ---------------------------------------------------------------------------

def _route_tail(p, f: Func):
    """(if-node, normalised test text) of the statement that appends the connecting peer to a non-empty forwarded route.
    The route list and the peer address may be named by a local bound once to the attribute (`cached_route =
    self._cached_access_route`, `remote_addr = self.remote_addr`: k4-c06-2).  The route alias is followed only when its
    binding precedes the `if` in the same block with no store to the attribute in between (it is then the same list
    object the attribute holds); the test is compared with the locals replaced by what they are bound to."""
    import copy

    ROUTE = '_cached_access_route'
    asg = assignments(f)
    parent = enclosing_map(f.node)

    def is_route_attr(e):
        return isinstance(e, ast.Attribute) and e.attr == ROUTE

    def once(e):
        """the self-attribute a local is bound to exactly once (else the expression itself)"""
        if isinstance(e, ast.Name) and e.id not in f.params():
            vals = asg.get(e.id, [])
            if len(vals) == 1 and isinstance(vals[0], ast.Attribute) and isinstance(vals[0].value, ast.Name) and vals[0].value.id == 'self':
                return vals[0]
        return e

    def alias_live_at(name: str, ifnode) -> bool:
        # walk backwards from the `if`, block by block outwards, to the binding of the alias; a store to the attribute
        # met on the way (the attribute may then hold another list) ends the reading
        cur = ifnode
        while cur is not None and cur is not f.node:
            holder = parent.get(id(cur))
            for fld in ('body', 'orelse', 'finalbody'):
                block = getattr(holder, fld, None)
                if isinstance(block, list) and any(st is cur for st in block):
                    idx = [i for i, st in enumerate(block) if st is cur][0]
                    for j in range(idx - 1, -1, -1):
                        st = block[j]
                        if isinstance(st, (ast.Assign, ast.AnnAssign)) and any(isinstance(t, ast.Name) and t.id == name
                                                                              for t in (st.targets if isinstance(st, ast.Assign) else [st.target])):
                            return True
                        if any(is_route_attr(y) and not isinstance(y.ctx, ast.Load) for y in ast.walk(st)):
                            return False
            if isinstance(holder, (ast.While, ast.For, ast.AsyncFor)):
                return False        # (a loop body may run again after a later store)
            cur = holder
        return False

    def is_route(e, ifnode):
        if is_route_attr(e):
            return True
        return isinstance(e, ast.Name) and is_route_attr(once(e)) and alias_live_at(e.id, ifnode)

    found = []
    for n in walk_no_nested(f.node):
        if not isinstance(n, ast.If):
            continue
        for st in n.body:
            if isinstance(st, ast.Expr) and isinstance(st.value, ast.Call) and isinstance(st.value.func, ast.Attribute) \
                    and st.value.func.attr == 'append' and is_route(st.value.func.value, n) and len(st.value.args) == 1:
                arg = st.value.args[0]
                # the hop loop appends parsed hosts too; the peer append is the one guarded by a test that mentions the route
                if any(is_route(x, n) for x in ast.walk(n.test)):
                    found.append((n, arg))
    if len(found) != 1:
        raise UnknownIdiom('%s: expected one guarded append of the peer address to the route, found %d' % (f.qual, len(found)))
    node, peer = found[0]
    ptxt = unparse(once(peer))

    class _Norm(ast.NodeTransformer):
        def visit(self, x):
            if isinstance(x, ast.expr):
                if unparse(once(x)) == ptxt:
                    return ast.Name(id='<peer>', ctx=ast.Load())
                if is_route(x, node):
                    return ast.Name(id='<route>', ctx=ast.Load())
            return self.generic_visit(x)

    txt = unparse(_Norm().visit(copy.deepcopy(node.test)))
    return node, txt


def r6_access_route_tail(run):
    p = run.project
    fw = p.lookup_method(WSGI_REQ, 'access_route')
    fa = p.lookup_method(ASGI_REQ, 'access_route')
    if fw is None or fa is None or fw is fa:
        raise AnchorError('access_route is not implemented separately by the two request classes')
    nw, tw = _route_tail(p, fw)
    na, ta = _route_tail(p, fa)
    run.use(fw)
    run.use(fa)
    run.check(tw == ta, 'both access_route implementations append the connecting peer to a forwarded chain under the same condition', fa,
              na.test, where=fa.loc(na), witness=['WSGI: %s' % tw, 'ASGI: %s' % ta],
              runtime_witness='X-Forwarded-For: 10.0.0.1, 192.0.2.43 from peer 10.0.0.1: the two stacks report different access_route / remote_addr')


# ---------------------------------------------------------------------------
# R7 the three copies of media rendering perform the same stores on the response
# ---------------------------------------------------------------------------

_RESPONSE_CLASSES = ('falcon.response.Response', 'falcon.asgi.response.Response')


def _helper_self_stores(p, f: Func, call, recv: str, depth=0, seen=None) -> Set[str]:
    """Attributes of `self` stored by the method `<recv>.<m>(...)` (and by the same-object helpers it calls, two levels):
    `self` of the helper is the object `recv` of the caller.  k1-c12-1: the rendering block of Response.render_body moved
    verbatim into Response._serialize_media()."""
    seen = set() if seen is None else seen
    if recv == 'self':
        tgt = p.callee(f, call)
        targets = [tgt] if isinstance(tgt, Func) else []
    else:
        targets = []
        for cq in _RESPONSE_CLASSES:
            m = p.lookup_method(cq, call.func.attr)
            if isinstance(m, Func) and m not in targets:
                targets.append(m)
    out: Set[str] = set()
    for h in targets:
        if h.qual in seen:
            continue
        seen.add(h.qual)
        for x in walk_no_nested(h.node):
            if isinstance(x, (ast.Assign, ast.AnnAssign, ast.AugAssign)):
                tg = x.targets if isinstance(x, ast.Assign) else [x.target]
                for tt in tg:
                    for y in walk_self(tt):
                        if isinstance(y, ast.Attribute) and isinstance(y.value, ast.Name) and y.value.id == 'self' and not isinstance(y.ctx, ast.Load):
                            out.add(y.attr)
            elif depth < 2 and isinstance(x, ast.Call) and isinstance(x.func, ast.Attribute) and isinstance(x.func.value, ast.Name) and x.func.value.id == 'self':
                out |= _helper_self_stores(p, h, x, 'self', depth + 1, seen)
    return out


def _render_stores(p, f: Func):
    """(if statement, receiver text, attributes of the response stored where the rendition is found missing) for each
    test of `<resp>._media_rendered` against `_UNSET` in f.  Read: `is` / `is not` / `==` / `!=` in either operand order,
    alone or inside `not` / `and` / `or` as long as one branch is proven to be the missing-rendition branch (so an inverted
    test with an early `else` reads the same); the cache tested through a local bound to it (`rendered =
    self._media_rendered; if rendered is _UNSET:`); the rendition computed into a local inside the branch and stored into
    the cache either inside the branch or by a statement that follows the `if` in the same block."""
    from .common import implied

    parent = enclosing_map(f.node)
    alias: Dict[str, str] = {}
    for n in walk_no_nested(f.node):
        if isinstance(n, ast.Assign) and len(n.targets) == 1 and isinstance(n.targets[0], ast.Name) \
                and isinstance(n.value, ast.Attribute) and n.value.attr == '_media_rendered':
            alias[n.targets[0].id] = unparse(n.value.value)

    def cache_recv(e) -> Optional[str]:
        if isinstance(e, ast.Attribute) and e.attr == '_media_rendered':
            return unparse(e.value)
        if isinstance(e, ast.Name) and e.id in alias:
            return alias[e.id]
        return None

    def is_unset(e) -> bool:
        ch = attr_chain(e)
        return ch is not None and ch[-1] == '_UNSET'

    def atom(e, ops):
        if not (isinstance(e, ast.Compare) and len(e.ops) == 1 and isinstance(e.ops[0], ops)):
            return None
        a, b = e.left, e.comparators[0]
        if is_unset(b) and cache_recv(a) is not None:
            return cache_recv(a)
        if is_unset(a) and cache_recv(b) is not None:
            return cache_recv(b)
        return None

    def missing_on(test, truth: bool) -> bool:
        return implied(test, truth, lambda e: atom(e, (ast.Is, ast.Eq)) is not None) is True \
            or implied(test, truth, lambda e: atom(e, (ast.IsNot, ast.NotEq)) is not None) is False

    out = []
    for n in walk_no_nested(f.node):
        if not isinstance(n, ast.If):
            continue
        recvs = {r for x in walk_self(n.test) for r in [atom(x, (ast.Is, ast.Eq, ast.IsNot, ast.NotEq))] if r is not None}
        if not recvs:
            continue
        if len(recvs) != 1:
            raise UnknownIdiom('%s: `if %s` tests the rendition cache of several objects' % (f.qual, short(n.test, 60)))
        recv = recvs.pop()
        branches = [b for b, truth in ((n.body, True), (n.orelse, False)) if missing_on(n.test, truth)]
        if len(branches) != 1 or not branches[0]:
            raise UnknownIdiom('%s: cannot tell which branch of `if %s` handles the missing rendition' % (f.qual, short(n.test, 60)))
        attrs = set()
        locals_ = set()
        for st in branches[0]:
            for x in walk_self(st):
                if isinstance(x, ast.Call) and isinstance(x.func, ast.Attribute) and unparse(x.func.value) == recv:
                    # a helper method of the same response object called from the block: its stores are stores of the block
                    attrs |= _helper_self_stores(p, f, x, recv)
                if isinstance(x, (ast.Assign, ast.AnnAssign, ast.AugAssign)):
                    tg = x.targets if isinstance(x, ast.Assign) else [x.target]
                    for tt in tg:
                        if isinstance(tt, ast.Attribute) and unparse(tt.value) == recv:
                            attrs.add(tt.attr)
                        elif isinstance(tt, ast.Name):
                            locals_.add(tt.id)
        # the rendition held in a local and stored by a statement that follows the `if` in the same block
        up = parent.get(id(n))
        for blk in (getattr(up, 'body', None), getattr(up, 'orelse', None), getattr(up, 'finalbody', None)):
            if isinstance(blk, list) and any(x is n for x in blk):
                i = next(k for k, x in enumerate(blk) if x is n)
                for st in blk[i + 1:]:
                    if isinstance(st, ast.Assign) and isinstance(st.value, ast.Name) and st.value.id in locals_ \
                            and any(isinstance(tt, ast.Attribute) and tt.attr == '_media_rendered' and unparse(tt.value) == recv for tt in st.targets):
                        attrs.add('_media_rendered')
        out.append((n, recv, attrs))
    return out


def r7_render_sibling_stores(run):
    p = run.project
    sibs = [p.func('falcon.response.Response.render_body'), p.func('falcon.asgi.response.Response.render_body'),
            p.func('falcon.asgi.app.App.__call__')]
    found = {}
    for f in sibs:
        run.use(f)
        blocks = _render_stores(p, f)
        if not blocks:
            # the whole block, test included, moved into a method of the same response object
            # (k2-c12-2: `data = self._render_media()`): read it there
            seen_h: Set[str] = set()
            for c in walk_no_nested(f.node):
                if not (isinstance(c, ast.Call) and isinstance(c.func, ast.Attribute) and isinstance(c.func.value, ast.Name)):
                    continue
                if c.func.value.id == 'self':
                    t = p.callee(f, c)
                    hs = [t] if isinstance(t, Func) else []
                else:
                    hs = [m for m in (p.lookup_method(cq, c.func.attr) for cq in _RESPONSE_CLASSES) if isinstance(m, Func)]
                for h in hs:
                    if h.qual not in seen_h and h.cls is not None and h.cls.qual in _RESPONSE_CLASSES:
                        seen_h.add(h.qual)
                        run.use(h)
                        blocks += _render_stores(p, h)
        if len(blocks) != 1:
            raise UnknownIdiom('%s: expected one `_media_rendered is _UNSET` block, found %d' % (f.qual, len(blocks)))
        found[f.qual] = blocks[0]
    ref_q = sibs[0].qual
    ref = found[ref_q][2]
    if '_media_rendered' not in ref:
        raise AnchorError('%s does not store the rendered media' % ref_q)
    for f in sibs[1:]:
        node, recv, attrs = found[f.qual]
        run.check(attrs == ref, 'the media-rendering copy in %s stores the same response attributes as Response.render_body '
                                '(the default media type written to content_type is what both stacks later emit)' % f.qual, f, node.test,
                  where=f.loc(node), witness=['%s: %s' % (ref_q, sorted(ref)), '%s: %s' % (f.qual, sorted(attrs))],
                  runtime_witness='resp.media set, no explicit content type, status 204/304: WSGI sends content-type: application/json, ASGI sends none')


# ---------------------------------------------------------------------------
# R8 per-request attributes are bound on every constructor path (or fall back
# to an immutable class-level default)
# ---------------------------------------------------------------------------

def _self_attr_stores(node):
    out = set()
    for x in node.walk() if hasattr(node, 'walk') else ():
        pass
    return out


def r8_ctor_definite_assignment(run):
    p = run.project
    for cq in (WSGI_REQ, ASGI_REQ):
        c = p.cls(cq)
        f = p.func(cq + '.__init__')
        cfg = cfg_of(f, p)
        run.use_cfg(cfg)

        def stores(n):
            res = set()
            if n.kind == 'stmt' and isinstance(n.ast, (ast.Assign, ast.AnnAssign, ast.AugAssign)):
                tg = n.ast.targets if isinstance(n.ast, ast.Assign) else [n.ast.target]
                if isinstance(n.ast, ast.AnnAssign) and n.ast.value is None:
                    return res
                for t in tg:
                    for tt in (t.elts if isinstance(t, (ast.Tuple, ast.List)) else [t]):
                        if isinstance(tt, ast.Attribute) and isinstance(tt.value, ast.Name) and tt.value.id == 'self':
                            res.add(tt.attr)
            return res

        some = set()
        for n in cfg.live_nodes():
            some |= stores(n)

        def transfer(n, facts, label):
            if label == 'exc':
                return facts
            return facts | frozenset(stores(n))

        IN = flow.forward(cfg, transfer, frozenset(), must=True)
        always = IN.get(cfg.exit, frozenset())
        n_cond = 0
        for attr in sorted(some - set(always)):
            n_cond += 1
            owner, default = p.lookup_class_attr(cq, attr)
            if default is None:
                run.fail('%s binds self.%s on some constructor paths only and the class has no default for it' % (cq, attr), f,
                         'self.%s conditionally bound, no class default' % attr,
                         runtime_witness='AttributeError on the paths that skip the assignment')
                continue
            imm = isinstance(default, ast.Constant) or (isinstance(default, ast.Tuple) and not default.elts) \
                or (isinstance(default, ast.Name) and default.id in ('_UNSET', 'None')) \
                or (isinstance(default, ast.UnaryOp) and isinstance(default.operand, ast.Constant))
            run.check(imm, '%s.%s is bound on some constructor paths only, so the other paths use the class-level default: '
                           'it must be immutable (a mutable default is one object shared by every request)' % (cq, attr), f,
                      'class default %s = %s' % (attr, short(default, 60)), where=owner.loc(owner.attr_nodes.get(attr)),
                      runtime_witness='every request without a query string shares one params dict: req.params.setdefault(...) in one request is visible in the next; WSGI and ASGI disagree')
        run.ok('%s: %d attribute(s) bound on every path, %d conditionally bound with an immutable class default' % (cq, len(always), n_cond), f.loc(),
               'definite assignment in %s.__init__' % cq)


# ---------------------------------------------------------------------------
# R9 the two simulated-request drivers percent-decode the path the same way
# ---------------------------------------------------------------------------

def r9_driver_path_decoding(run):
    """A server percent-decodes the request path (a '+' in a path is a literal
    plus; only query strings use '+' for space).  Both test drivers decode the
    simulated path with falcon.util.uri.decode; they must do so with the same
    effective `unquote_plus` value, and that value must be false.
    W: simulate_get(asgi_app, '/files/C++-notes.txt') routes '/files/C  -notes.txt'."""
    p = run.project
    dec = p.func('falcon.util.uri.decode')
    params = dec.params()
    if 'unquote_plus' not in params:
        raise AnchorError('uri.decode has no unquote_plus parameter')
    idx = params.index('unquote_plus')
    a = dec.node.args
    defaults = dict(zip([x.arg for x in a.args][len(a.args) - len(a.defaults):], a.defaults))
    dflt = p.fold(dec.module, defaults['unquote_plus'], None, None) if 'unquote_plus' in defaults else None
    seen = {}
    for q in ('falcon.testing.helpers.create_environ', 'falcon.testing.helpers.create_scope'):
        f = p.func(q)
        run.use(f)
        calls = [c for c in walk_no_nested(f.node) if isinstance(c, ast.Call) and p.resolve_callable(f, c.func) is dec
                 and c.args and isinstance(c.args[0], ast.Name) and c.args[0].id == 'path']
        if len(calls) != 1:
            raise UnknownIdiom('%s: expected one uri.decode(path, ...) call, found %d' % (q, len(calls)))
        c = calls[0]
        val = dflt
        if len(c.args) > idx:
            val = p.fold(f.module, c.args[idx], None, f)
        for k in c.keywords:
            if k.arg == 'unquote_plus':
                val = p.fold(f.module, k.value, None, f)
        seen[q] = (c, val)
        run.check(val is False, '%s percent-decodes the simulated path without turning "+" into a space' % q.rsplit('.', 1)[1], f, c,
                  runtime_witness="a literal '+' in the URL path reaches the app as a space through the test client but as '+' through a real server")
    vals = {v for (_c, v) in seen.values()}
    run.check(len(vals) == 1, 'create_environ and create_scope decode the path with the same options', p.func('falcon.testing.helpers.create_scope'),
              seen['falcon.testing.helpers.create_scope'][0], witness=['%s: unquote_plus=%r' % (k, v[1]) for k, v in seen.items()])


# ---------------------------------------------------------------------------
# R13 the constructors rebind the request's raw inputs (path, query string)
# through the same (guard, transformation) pipeline
# ---------------------------------------------------------------------------

# (table kind, key) -> stack-neutral name of the raw input
RAW_INPUTS: Dict[Tuple[str, object], str] = {
    ('environ', 'PATH_INFO'): 'path', ('scope', 'path'): 'path',
    ('environ', 'SCRIPT_NAME'): 'root_path', ('scope', 'root_path'): 'root_path',
    ('environ', 'QUERY_STRING'): 'query_string', ('scope', 'query_string'): 'query_string',
}

V = '<v>'

# methods of str / bytes that the normal form may contain (a call of anything
# else - a helper, a module function - is not read: unknown idiom)
_VALUE_METHODS = frozenset((
    'encode', 'decode', 'isascii', 'startswith', 'endswith', 'strip', 'lstrip', 'rstrip', 'lower', 'upper', 'replace',
    'removeprefix', 'removesuffix', 'partition', 'rpartition', 'split', 'rsplit', 'join', 'find', 'rfind', 'index', 'count',
    'casefold', 'title', 'isdigit', 'format', 'translate', 'expandtabs', 'zfill', 'splitlines'))

_BINOPS = {ast.Add: '+', ast.Sub: '-', ast.Mult: '*', ast.Mod: '%', ast.FloorDiv: '//'}
_CMPOPS = {ast.Eq: '==', ast.NotEq: '!=', ast.Lt: '<', ast.LtE: '<=', ast.Gt: '>', ast.GtE: '>=', ast.In: 'in', ast.NotIn: 'not in',
           ast.Is: 'is', ast.IsNot: 'is not'}
_CMPMIRROR = {'==': '==', '!=': '!=', '<': '>', '>': '<', '<=': '>=', '>=': '<='}
_CMPNEG = {'==': '!=', '!=': '==', '<': '>=', '>=': '<', '>': '<=', '<=': '>', 'in': 'not in', 'not in': 'in', 'is': 'is not', 'is not': 'is'}


def _codec(name):
    import codecs
    try:
        return codecs.lookup(name).name
    except LookupError:
        return name


def _latin1_redecode(g, t):
    return t == "%s.encode('iso8859-1').decode('utf-8', 'replace')" % V and g <= {('%s.isascii()' % V, False)}


def _missing_key_blank(g, t):
    return t == "''" and g == {('except KeyError', True)}


def _blank_or_blank(g, t):
    return t == "''" and g == {(V, False)}


def _bytes_decode(g, t):
    return t.startswith(V + '.decode(') and t.endswith(')') and t.count('(') == 1 and not g


# documented asymmetries of the pipelines: attribute -> [(stack, predicate(guard, transformation), reason)]
PIPELINE_TABLED = {
    'path': [('WSGI', _latin1_redecode, 'PEP 3333 tunnels the path bytes through ISO-8859-1, so WSGI re-decodes them as UTF-8; '
                                        'the ASGI server hands over the already decoded str')],
    'query_string': [('WSGI', _missing_key_blank, 'PEP 3333 lets the server omit QUERY_STRING; the ASGI scope key is mandatory'),
                     ('WSGI', _blank_or_blank, "`v or ''` is the identity on the str-valued environ entry (PEP 3333: CGI variables are str); with "
                                               "`env.get(K)` it is the missing-key fall-back above"),
                     ('ASGI', _bytes_decode, 'the ASGI scope carries the query string as bytes, the WSGI environ as str '
                                             '(the strictness of the decoding is R2(c): F8)')],
}


def _binds_name(x, name: str) -> bool:
    return isinstance(x, ast.Name) and x.id == name and isinstance(x.ctx, (ast.Store, ast.Del))


def self_alias_at(p, f: Func, name: str, nid: int) -> Optional[str]:
    """`A` when, at CFG node nid of f, the local / parameter `name` is the very
    object held by self.A: f has exactly one store into self.A, it is the plain
    `self.A = name`, it dominates nid, and `name` is not bound again (assignment,
    del, for/with/except target, walrus) at any node reachable from the store.
    Reading `name.x` there is reading `self.A.x` (k1-c06-2: `self.options =
    options` followed by `options.strip_url_path_trailing_slash`)."""
    cfg = cfg_of(f, p)
    stores: Dict[str, list] = {}
    for n in cfg.live_nodes():
        if n.copy or n.kind != 'stmt' or not isinstance(n.ast, (ast.Assign, ast.AnnAssign, ast.AugAssign, ast.Delete)):
            continue
        a = n.ast
        tg = a.targets if isinstance(a, (ast.Assign, ast.Delete)) else [a.target]
        for t in tg:
            for x in walk_self(t):
                if isinstance(x, ast.Attribute) and isinstance(x.value, ast.Name) and x.value.id == 'self' and not isinstance(x.ctx, ast.Load):
                    stores.setdefault(x.attr, []).append((n, a, t))
    for attr, sts in sorted(stores.items()):
        if len(sts) != 1:
            continue
        n, a, t = sts[0]
        if not (isinstance(a, (ast.Assign, ast.AnnAssign)) and isinstance(t, ast.Attribute) and isinstance(getattr(a, 'value', None), ast.Name)
                and a.value.id == name):
            continue
        if nid == n.id or not flow.dominated_by_nodes(cfg, nid, [n.id]):
            continue
        after = flow.reachable(cfg, [y for y, _l in cfg.succ[n.id]])
        rebound = False
        for m in cfg.live_nodes():
            if m.id not in after:
                continue
            if any(d.name == name for d in node_defs(m)) or any(_binds_name(x, name) for x in m.walk()):
                rebound = True
                break
        if not rebound:
            return attr
    return None


def self_chain_at(p, f: Func, rd, ch, nid: int):
    """The attribute chain `ch` (a tuple of names) rewritten to start at `self` when its root is a local that is an
    attribute of self at node nid: stored into it (`self.A = L`, see self_alias_at) or read from it (`L = self.A...`, the
    single definition of L reaching nid, with self.A stored at most once in f and before that definition)."""
    if ch is None or len(ch) < 2 or ch[0] == 'self':
        return ch
    al = self_alias_at(p, f, ch[0], nid)
    if al is not None:
        return ('self', al) + tuple(ch[1:])
    ds = rd.at(nid, ch[0])
    if len(ds) == 1 and ds[0].how == 'assign' and ds[0].value is not None:
        src = attr_chain(ds[0].value)
        if src is not None and len(src) >= 2 and src[0] == 'self' and isinstance(ds[0].value, ast.Attribute):
            cfg = cfg_of(f, p)
            dn = _stmt_node(cfg, ds[0].stmt)
            stores = [n for n in cfg.live_nodes() if not n.copy and n.kind == 'stmt' and isinstance(n.ast, (ast.Assign, ast.AnnAssign, ast.AugAssign, ast.Delete))
                      and any(isinstance(x, ast.Attribute) and not isinstance(x.ctx, ast.Load) and attr_chain(x) == src[:2]
                              for t in (n.ast.targets if isinstance(n.ast, (ast.Assign, ast.Delete)) else [n.ast.target]) for x in walk_self(t))]
            if not stores or (len(stores) == 1 and stores[0].id != dn and flow.dominated_by_nodes(cfg, dn, [stores[0].id])
                              and stores[0].id not in flow.reachable(cfg, [y for y, _l in cfg.succ[dn]])):
                return tuple(src) + tuple(ch[1:])
    return ch


def _facts_with_ids(cfg, nid):
    """branch_facts, with the id of the test node (names in a test are resolved where the test is evaluated)."""
    out = []
    for t in cfg.live_nodes():
        if t.kind != 'test' or t.id == nid:
            continue
        for lab, truth in (('T', True), ('F', False)):
            edges = flow.edges_out(cfg, t.id, lab)
            if edges and nid not in flow.reachable(cfg, [cfg.entry], avoid_edges=edges):
                out.append((t.id, t.ast, truth))
    return out


class _Pipeline:
    """Every rebinding of the value that ends up in self.<attr>, between the read
    of the raw input and the store, as [(guard atoms, transformation text, stmt)]."""

    def __init__(self, p, f: Func, attr: str):
        self.p, self.f, self.attr = p, f, attr
        self.cfg = cfg_of(f, p)
        self.rd = ReachingDefs(self.cfg)
        self.parent = None
        self.raw_used: Set[str] = set()
        self.vars = self._pipeline_vars()
        self.steps = self._steps()

    # -- raw inputs ---------------------------------------------------------
    def _raw_of(self, e) -> Optional[str]:
        tbl = key = None
        if isinstance(e, ast.Subscript) and isinstance(e.ctx, ast.Load):
            tbl, key = table_of(self.f, e.value), e.slice
        elif isinstance(e, ast.Call) and isinstance(e.func, ast.Attribute) and e.func.attr == 'get' and e.args:
            tbl, key = table_of(self.f, e.func.value), e.args[0]
        if tbl is None or tbl[0] not in ('environ', 'scope'):
            return None
        if not isinstance(key, ast.Constant):
            raise UnknownIdiom('%s: computed %s key in the %s pipeline: %s' % (self.f.qual, tbl[0], self.attr, short(e, 60)))
        return RAW_INPUTS.get((tbl[0], key.value), '%s:%s' % (tbl[0], key.value))

    def _is_own_raw(self, e) -> bool:
        try:
            return self._raw_of(e) == self.attr
        except UnknownIdiom:
            return False

    def _is_store_target(self, t) -> bool:
        return is_self_attr(t, self.attr)

    def _guard_locals(self) -> Set[str]:
        """Locals that are only ever read inside a branch condition (`strip = options.x and v.endswith('/')` ...
        `v[:-1] if strip else v`): they name a guard, they are not a stage of the value.  Read where they are used."""
        par = enclosing_map(self.f.node)
        loads: Dict[str, List[bool]] = {}
        for x in walk_no_nested(self.f.node):
            if isinstance(x, ast.Name) and isinstance(x.ctx, ast.Load):
                in_test, child, cur = False, x, par.get(id(x))
                while cur is not None and isinstance(cur, ast.expr):
                    if isinstance(cur, ast.IfExp) and child is cur.test:
                        in_test = True
                        break
                    child, cur = cur, par.get(id(cur))
                if not in_test and isinstance(cur, (ast.If, ast.While, ast.Assert)) and child is cur.test:
                    in_test = True
                loads.setdefault(x.id, []).append(in_test)
        return {n for n, where in loads.items() if all(where)}

    def _pipeline_vars(self) -> Set[str]:
        asg = assignments(self.f)
        derived: Set[str] = set()
        guards = self._guard_locals()
        changed = True
        while changed:
            changed = False
            for name, vals in asg.items():
                if name in derived or name in guards:
                    continue
                for v in vals:
                    if v is not None and any(self._is_own_raw(x) or (isinstance(x, ast.Name) and x.id in derived)
                                             or (isinstance(x, ast.Attribute) and isinstance(x.ctx, ast.Load) and is_self_attr(x, self.attr))
                                             for x in walk_self(v)):
                        derived.add(name)
                        changed = True
                        break
        # backward closure from the stores into self.<attr>
        stores = []
        for n in walk_no_nested(self.f.node):
            if isinstance(n, (ast.Assign, ast.AnnAssign, ast.AugAssign)) and getattr(n, 'value', None) is not None:
                tg = n.targets if isinstance(n, ast.Assign) else [n.target]
                if any(self._is_store_target(t) for t in tg):
                    stores.append(n)
        if not stores:
            raise AnchorError('%s: no assignment to self.%s' % (self.f.qual, self.attr))
        back: Set[str] = set()
        work = [x.id for s in stores for x in walk_self(s.value) if isinstance(x, ast.Name)]
        while work:
            nm = work.pop()
            if nm in back or nm not in derived:
                continue
            back.add(nm)
            for v in asg.get(nm, ()):
                if v is not None:
                    work.extend(x.id for x in walk_self(v) if isinstance(x, ast.Name))
        return back

    # -- normal form --------------------------------------------------------
    def norm(self, e, nid, depth=0) -> str:
        if depth > 8:
            raise UnknownIdiom('%s: the %s pipeline is too deeply nested to read' % (self.f.qual, self.attr))
        N = lambda x: self.norm(x, nid, depth + 1)  # noqa: E731
        if isinstance(e, ast.Constant):
            return repr(e.value)
        if isinstance(e, ast.Name):
            if e.id in self.vars:
                return V
            ds = self.rd.at(nid, e.id)
            if len(ds) == 1 and ds[0].how == 'assign' and ds[0].value is not None:
                return self.norm(ds[0].value, _stmt_node(self.cfg, ds[0].stmt), depth + 1)
            raise UnknownIdiom('%s: local %r used in the %s pipeline has no single plain definition' % (self.f.qual, e.id, self.attr))
        raw = self._raw_of(e) if isinstance(e, (ast.Subscript, ast.Call)) else None
        if raw is not None:
            self.raw_used.add(raw)
            return V if raw == self.attr else '<raw:%s>' % raw
        if isinstance(e, ast.Attribute):
            if is_self_attr(e, self.attr):
                return V
            ch = attr_chain(e)
            # a local that IS self.<A> (stored once, never rebound / read once): `options.x` reads `self.options.x`
            ch = self_chain_at(self.p, self.f, self.rd, ch, nid)
            if ch is not None and ch[0] == 'self':
                return '.'.join(ch[1:]) if len(ch) == 3 and ch[1] == 'options' else '.'.join(ch)
            raise UnknownIdiom('%s: attribute %s in the %s pipeline' % (self.f.qual, short(e, 60), self.attr))
        if isinstance(e, ast.Subscript):
            s = e.slice
            if isinstance(s, ast.Slice):
                st = ':'.join('' if x is None else N(x) for x in (s.lower, s.upper)) + ('' if s.step is None else ':' + N(s.step))
            else:
                st = N(s)
            return '%s[%s]' % (N(e.value), st)
        if isinstance(e, ast.Call) and not any(k.arg is None for k in e.keywords) and not any(isinstance(a, ast.Starred) for a in e.args):
            if isinstance(e.func, ast.Name) and e.func.id == 'len' and e.func.id not in local_names(self.f) and len(e.args) == 1 and not e.keywords:
                return '%s(%s)' % (e.func.id, N(e.args[0]))
            if isinstance(e.func, ast.Attribute) and e.func.attr in _VALUE_METHODS:
                recv = N(e.func.value)
                args = [N(a) for a in e.args] + ['%s=%s' % (k.arg, N(k.value)) for k in sorted(e.keywords, key=lambda k: k.arg)]
                if e.func.attr in ('encode', 'decode') and e.args and isinstance(e.args[0], ast.Constant) and isinstance(e.args[0].value, str):
                    args[0] = repr(_codec(e.args[0].value))
                return '%s.%s(%s)' % (recv, e.func.attr, ', '.join(args))
            raise UnknownIdiom('%s: call %s in the %s pipeline is not a str/bytes method (a helper is not looked through)' % (
                self.f.qual, short(e, 60), self.attr))
        if isinstance(e, ast.BoolOp):
            return '(%s)' % (' and ' if isinstance(e.op, ast.And) else ' or ').join(N(v) for v in e.values)
        if isinstance(e, ast.UnaryOp) and isinstance(e.op, ast.Not):
            return 'not %s' % N(e.operand)
        if isinstance(e, ast.UnaryOp) and isinstance(e.op, ast.USub):
            return '-%s' % N(e.operand)
        if isinstance(e, ast.BinOp) and type(e.op) in _BINOPS:
            return '(%s %s %s)' % (N(e.left), _BINOPS[type(e.op)], N(e.right))
        if isinstance(e, ast.Compare) and all(type(o) in _CMPOPS for o in e.ops):
            out = N(e.left)
            for o, c in zip(e.ops, e.comparators):
                out += ' %s %s' % (_CMPOPS[type(o)], N(c))
            return out
        if isinstance(e, ast.IfExp):
            return '(%s if %s else %s)' % (N(e.body), N(e.test), N(e.orelse))
        raise UnknownIdiom('%s: expression %s in the %s pipeline' % (self.f.qual, short(e, 60), self.attr))

    def _through_helper(self, e, nid):
        """`helper(<value>, <other arguments>)` with `helper` a loop-free module-level function: [(guard atoms,
        transformation, simple)] for every `return` of the helper that does not hand the value back unchanged -- the
        helper's parameters read as the caller's arguments (k2-c06-2: the trailing-slash strip of both constructors moved
        into request_helpers._apply_trailing_slash_option(path, self.options.strip_url_path_trailing_slash)).
        None when `e` is not such a call."""
        if not (isinstance(e, ast.Call) and not any(isinstance(a, ast.Starred) for a in e.args) and not any(k.arg is None for k in e.keywords)):
            return None
        h = self.p.callee(self.f, e)
        if not isinstance(h, Func) or h.cls is not None or h.parent is not None or h.is_async or h.decorators:
            return None
        if any(isinstance(x, (ast.While, ast.For, ast.AsyncFor, ast.Try, ast.With, ast.Yield, ast.YieldFrom, ast.Global, ast.Nonlocal, ast.Lambda))
               for x in walk_no_nested(h.node)) or h.nested:
            return None
        hargs = h.node.args
        if hargs.vararg or hargs.kwarg or hargs.posonlyargs:
            return None
        params = h.params()
        if len(e.args) > len(params):
            return None
        bound: Dict[str, ast.AST] = dict(zip(params, e.args))
        for k in e.keywords:
            if k.arg not in params or k.arg in bound:
                return None
            bound[k.arg] = k.value
        if any(pn not in bound for pn in params):
            return None             # (a default would have to be read in the helper's module: not needed so far)
        subst = {pn: self.norm(a, nid) for pn, a in bound.items()}
        if V not in subst.values():
            return None             # the value is not handed over as it is
        hp = _HelperPipeline(self, h, subst)
        out = []
        rets = [n for n in hp.cfg.live_nodes() if not n.copy and n.kind == 'stmt' and isinstance(n.ast, ast.Return)]
        if not rets or any(r.ast.value is None for r in rets):
            raise UnknownIdiom('%s: helper %s of the %s pipeline does not return a value on every path' % (self.f.qual, h.qual, self.attr))
        if flow.find_path(hp.cfg, [hp.cfg.entry], [hp.cfg.exit], avoid_nodes=[r.id for r in rets], edge_filter=flow.no_exc) is not None:
            raise UnknownIdiom('%s: helper %s of the %s pipeline can fall off its end' % (self.f.qual, h.qual, self.attr))
        for r in rets:
            t = hp.norm(r.ast.value, r.id)
            if t == V:
                continue
            out.append((hp._guard(r.id, r.ast), t, hp._simple(r.ast.value)))
        self.raw_used |= hp.raw_used
        return out

    def _alternatives(self, e, nid):
        """[(guard atoms, expression)]: the alternatives of a conditional expression at the top of a bound value, each
        under the atoms its arm runs under; `T.get(K, dflt)` of the own raw input reads as `T[K] if K in T else dflt`."""
        if isinstance(e, ast.IfExp):
            out = []
            for arm, truth in ((e.body, True), (e.orelse, False)):
                g = self._atoms(e.test, truth, nid)
                for g2, x in self._alternatives(arm, nid):
                    out.append((frozenset(g | g2), x))
            return out
        if (isinstance(e, ast.Call) and isinstance(e.func, ast.Attribute) and e.func.attr == 'get' and len(e.args) == 2 and not e.keywords
                and self._is_own_raw(e)):
            self.raw_used.add(self.attr)
            read = ast.copy_location(ast.Subscript(value=e.func.value, slice=e.args[0], ctx=ast.Load()), e)
            return [(frozenset(), read), (frozenset({('except KeyError', True)}), e.args[1])]
        if isinstance(e, ast.BoolOp) and isinstance(e.op, ast.Or) and len(e.values) >= 2:
            # `v or C` bound to the value is `if not v: v = C` (the default written as an expression or as a statement)
            try:
                first = self.norm(e.values[0], nid)
            except UnknownIdiom:
                first = None
            if first == V:
                rest = e.values[1] if len(e.values) == 2 else ast.copy_location(ast.BoolOp(op=ast.Or(), values=list(e.values[1:])), e)
                return [(frozenset(), e.values[0])] + [(frozenset({(V, False)}) | g, x) for g, x in self._alternatives(rest, nid)]
        return [(frozenset(), e)]

    def _simple(self, e) -> bool:
        """Canonical transformation: the value, constants, `or`, str methods with
        constant arguments, slices with constant bounds.  Two of these that differ
        textually are different functions of the value."""
        if isinstance(e, ast.Constant):
            return True
        if isinstance(e, ast.Name):
            return e.id in self.vars
        if isinstance(e, ast.Attribute):
            return is_self_attr(e, self.attr)
        if isinstance(e, (ast.Subscript, ast.Call)) and self._is_own_raw(e):
            return True
        if isinstance(e, ast.BoolOp):
            return all(self._simple(v) for v in e.values)
        if isinstance(e, ast.UnaryOp) and isinstance(e.op, ast.USub):
            return isinstance(e.operand, ast.Constant)
        if isinstance(e, ast.Call) and isinstance(e.func, ast.Attribute):
            return self._simple(e.func.value) and all(isinstance(a, ast.Constant) for a in e.args) and all(isinstance(k.value, ast.Constant) for k in e.keywords)
        if isinstance(e, ast.Subscript):
            sl = e.slice
            parts = [sl.lower, sl.upper, sl.step] if isinstance(sl, ast.Slice) else [sl]
            return self._simple(e.value) and all(x is None or isinstance(x, ast.Constant) or (
                isinstance(x, ast.UnaryOp) and isinstance(x.op, ast.USub) and isinstance(x.operand, ast.Constant)) for x in parts)
        return False

    def _atoms(self, e, truth, nid, depth=0) -> Set[Tuple[str, bool]]:
        while isinstance(e, ast.UnaryOp) and isinstance(e.op, ast.Not):
            e, truth = e.operand, not truth
        if isinstance(e, ast.Name) and e.id not in self.vars and depth < 4:
            # a local that names a condition: its atoms are those of the expression it was bound to
            ds = self.rd.at(nid, e.id)
            if len(ds) == 1 and ds[0].how == 'assign' and ds[0].value is not None and isinstance(ds[0].value, (ast.BoolOp, ast.Compare, ast.UnaryOp, ast.Call, ast.Attribute)):
                return self._atoms(ds[0].value, truth, _stmt_node(self.cfg, ds[0].stmt), depth + 1)
        if isinstance(e, ast.BoolOp) and ((isinstance(e.op, ast.And) and truth) or (isinstance(e.op, ast.Or) and not truth)):
            out: Set[Tuple[str, bool]] = set()
            for v in e.values:
                out |= self._atoms(v, truth, nid)
            return out
        if isinstance(e, ast.Compare) and len(e.ops) == 1 and isinstance(e.ops[0], (ast.In, ast.NotIn)) and isinstance(e.left, ast.Constant):
            # `K in env` / `K not in scope`: presence of a raw input.  "The own raw input is missing" is what the
            # `except KeyError` arm around its read says (same atom); "it is present" is what the try's else / the code
            # after the read runs under (no atom there, none here)
            tbl = table_of(self.f, e.comparators[0])
            if tbl is not None and tbl[0] in ('environ', 'scope'):
                raw = RAW_INPUTS.get((tbl[0], e.left.value), '%s:%s' % (tbl[0], e.left.value))
                present = isinstance(e.ops[0], ast.In) == truth
                self.raw_used.add(raw)
                if raw == self.attr:
                    return set() if present else {('except KeyError', True)}
                return {('<raw:%s> is present' % raw, present)}
        if isinstance(e, ast.Compare) and len(e.ops) == 1 and type(e.ops[0]) in _CMPOPS:
            l, op, r = self.norm(e.left, nid), _CMPOPS[type(e.ops[0])], self.norm(e.comparators[0], nid)
            if not truth:
                op, truth = _CMPNEG[op], True
            if isinstance(e.left, ast.Constant) and not isinstance(e.comparators[0], ast.Constant) and op in _CMPMIRROR:
                l, op, r = r, _CMPMIRROR[op], l  # constant on the right
            # the value is never empty once `or '/'` was applied: len != 1, > 1, >= 2 say the same
            if l.startswith('len(') and (op, r) in (('!=', '1'), ('>', '1'), ('>=', '2')):
                op, r = '>', '1'
            return {('%s %s %s' % (l, op, r), True)}
        return {(self.norm(e, nid), truth)}

    def _guard(self, nid, stmt) -> frozenset:
        atoms: Set[Tuple[str, bool]] = set()
        for tid, test, truth in _facts_with_ids(self.cfg, nid):
            atoms |= self._atoms(test, truth, tid)
        if self.parent is None:
            self.parent = enclosing_map(self.f.node)
        cur = self.parent.get(id(stmt))
        while cur is not None and cur is not self.f.node:
            if isinstance(cur, ast.ExceptHandler):
                atoms.add(('except %s' % (unparse(cur.type) if cur.type is not None else '<all>'), True))
            cur = self.parent.get(id(cur))
        # given endswith('/'):  v != '/'  <=>  len(v) > 1
        if ("%s.endswith('/')" % V, True) in atoms and ("%s != '/'" % V, True) in atoms:
            atoms.discard(("%s != '/'" % V, True))
            atoms.add(('len(%s) > 1' % V, True))
        return frozenset(atoms)

    def _steps(self):
        out = []
        for n in self.cfg.live_nodes():
            if n.copy:
                continue
            for d in node_defs(n):
                if d.name in self.vars and not (n.kind == 'stmt' and isinstance(n.ast, (ast.Assign, ast.AnnAssign, ast.AugAssign)) and d.how in ('assign', 'aug')):
                    raise UnknownIdiom('%s: %r (part of the %s pipeline) is bound by a %s' % (self.f.qual, d.name, self.attr, d.how))
            if n.kind != 'stmt' or not isinstance(n.ast, (ast.Assign, ast.AnnAssign, ast.AugAssign)) or getattr(n.ast, 'value', None) is None:
                continue
            a = n.ast
            tg = a.targets if isinstance(a, ast.Assign) else [a.target]
            hit = False
            for t in tg:
                if isinstance(t, (ast.Tuple, ast.List)):
                    if any((isinstance(x, ast.Name) and x.id in self.vars) or self._is_store_target(x) for x in walk_self(t)):
                        raise UnknownIdiom('%s: tuple assignment in the %s pipeline: %s' % (self.f.qual, self.attr, short(a, 60)))
                elif (isinstance(t, ast.Name) and t.id in self.vars) or self._is_store_target(t):
                    hit = True
            if not hit:
                continue
            if isinstance(a, ast.AugAssign):
                if type(a.op) not in _BINOPS:
                    raise UnknownIdiom('%s: %s in the %s pipeline' % (self.f.qual, short(a, 60), self.attr))
                t = '(%s %s %s)' % (V, _BINOPS[type(a.op)], self.norm(a.value, n.id))
                if t != V:
                    out.append((self._guard(n.id, a), t, a, False))
                continue
            # `X if c else Y` bound to the value is the statement `if c: v = X else: v = Y` (k3-c06-1: the
            # try/except KeyError around the raw read became `env[K] if K in env else ''`); so is `env.get(K, Y)`
            for extra, val in self._alternatives(a.value, n.id):
                looked = self._through_helper(val, n.id)
                if looked is not None:
                    # a module-level helper handed the value: its returns are the rebindings (guards conjoined with ours)
                    g0 = self._guard(n.id, a) | extra
                    for g, t, simple in looked:
                        out.append((frozenset(g0 | g), t, a, simple))
                    continue
                t = self.norm(val, n.id)
                if t == V:
                    continue  # a plain copy (raw read, rename, the store itself)
                out.append((frozenset(self._guard(n.id, a) | extra), t, a, self._simple(val)))
        for x in walk_no_nested(self.f.node):
            if isinstance(x, ast.NamedExpr) and x.target.id in self.vars:
                raise UnknownIdiom('%s: %r (part of the %s pipeline) is bound by a walrus' % (self.f.qual, x.target.id, self.attr))
        out.sort(key=lambda s: (s[2].lineno, s[2].col_offset))
        return out


class _HelperPipeline(_Pipeline):
    """Normal forms inside a module-level helper that is handed the pipeline value: a parameter reads as the caller's
    argument (the value itself, or the normal form of whatever else was passed)."""

    def __init__(self, outer: _Pipeline, h: Func, subst: Dict[str, str]):
        self.p, self.f, self.attr = outer.p, h, outer.attr
        self.cfg = cfg_of(h, outer.p)
        self.rd = ReachingDefs(self.cfg)
        self.parent = None
        self.raw_used = set()
        self.subst = subst
        self.vars = {pn for pn, t in subst.items() if t == V}
        for n in self.cfg.live_nodes():
            for d in node_defs(n):
                if d.name in subst:
                    raise UnknownIdiom('%s: helper of the %s pipeline rebinds its parameter %r' % (h.qual, self.attr, d.name))

    def _is_store_target(self, t) -> bool:
        return False

    def _through_helper(self, e, nid):
        return None

    def norm(self, e, nid, depth=0) -> str:
        if isinstance(e, ast.Name) and e.id in self.subst:
            return self.subst[e.id]
        if isinstance(e, ast.Attribute) and is_self_attr(e, self.attr):
            raise UnknownIdiom('%s: `self` inside a module-level helper' % self.f.qual)
        return _Pipeline.norm(self, e, nid, depth)

    def _simple(self, e) -> bool:
        if isinstance(e, ast.Name) and e.id in self.subst and e.id not in self.vars:
            return False
        return _Pipeline._simple(self, e)


def _guard_text(g) -> str:
    return ' and '.join(sorted(('' if tr else 'not ') + a for a, tr in g))


def _step_text(g, t) -> str:
    gs = _guard_text(g)
    return ('if %s: ' % gs if gs else '') + '%s := %s' % (V, t)


_SYMBOL = re.compile(r"<v>|<raw:[^>]+>|options\.\w+|self(?:\.\w+)+|except [\w.]+")
# guard atoms whose normal form is canonical: two of them that differ textually differ in meaning
_KNOWN_ATOM = re.compile(r"<v>|len\(<v>\) (?:==|!=|<|<=|>|>=) \d+|<v>\.(?:endswith|startswith)\('[^']*'\)|options\.\w+|self(?:\.\w+)+|<v>\.isascii\(\)|except [\w.]+")


def _symbols(texts) -> Set[str]:
    out: Set[str] = set()
    for t in texts:
        out |= set(_SYMBOL.findall(t))
    return out


def _guards_differ(what: str, g1, t1, g2, t2) -> bool:
    """False: the two guards are the same set of atoms.  True: they differ in
    meaning - an atom on one side consults a raw input / option / attribute the
    other side never mentions, or all the atoms that differ are in canonical
    form.  Anything else (two spellings that may well be equivalent) is an
    unknown idiom, not a verdict."""
    a, b = g1 - g2, g2 - g1
    if not a and not b:
        return False
    s1, s2 = _symbols([x for x, _ in g1] + [t1]), _symbols([x for x, _ in g2] + [t2])
    if any(_symbols([x]) - s2 for x, _ in a) or any(_symbols([x]) - s1 for x, _ in b):
        return True
    if all(_KNOWN_ATOM.fullmatch(x) for x, _ in a | b):
        return True
    raise UnknownIdiom('%s: the guards {%s} and {%s} differ in atoms whose equivalence the rule cannot decide' % (what, _guard_text(g1), _guard_text(g2)))


def r13_ctor_value_pipelines(run):
    """Between the raw read (env['PATH_INFO'] / scope['path'], QUERY_STRING /
    query_string) and the store into self.path / self.query_string, the two
    constructors apply the same sequence of (guard, transformation) pairs, up
    to the tabled asymmetries.
    W: ASGI alone drops a leading root_path from the path: an app mounted under
    /api serves /api/items as /items on ASGI and as /api/items on WSGI."""
    p = run.project
    fw, fa = p.func(WSGI_REQ + '.__init__'), p.func(ASGI_REQ + '.__init__')
    run.use(fw)
    run.use(fa)
    for attr in ('path', 'query_string'):
        pipes = {'WSGI': _Pipeline(p, fw, attr), 'ASGI': _Pipeline(p, fa, attr)}
        for pl in pipes.values():
            if not _reads_own_raw(pl):
                raise AnchorError('%s: the raw %s input is not read on the way to self.%s' % (pl.f.qual, attr, attr))
        rest = {}
        for side, pl in pipes.items():
            keep = []
            for g, t, st, simple in pl.steps:
                why = next((r for s_, pred, r in PIPELINE_TABLED.get(attr, ()) if s_ == side and pred(g, t)), None)
                if why is not None:
                    run.ok('self.%s, %s only: `%s` is a documented asymmetry (%s)' % (attr, side, _step_text(g, t), why), pl.f.loc(st), st)
                else:
                    keep.append((g, t, st, simple))
            rest[side] = keep
        wit = ['%s %s: %s' % (side, pipes[side].f.qual, ' ; '.join(_step_text(g, t) for g, t, _s, _x in pipes[side].steps) or '(plain copy)')
               for side in ('WSGI', 'ASGI')]
        wit.append('raw inputs consulted for self.%s: WSGI %s, ASGI %s' % (attr, sorted(pipes['WSGI'].raw_used), sorted(pipes['ASGI'].raw_used)))
        rt = ('a request for which the one-sided guard holds (e.g. an app mounted under /api asked for /api/items): '
              'req.%s, hence routing and the URL parts, differ between WSGI and ASGI' % attr)
        # exact matches first
        un = {'WSGI': list(rest['WSGI']), 'ASGI': []}
        for step in rest['ASGI']:
            m = next((x for x in un['WSGI'] if x[0] == step[0] and x[1] == step[1]), None)
            if m is not None:
                un['WSGI'].remove(m)
            else:
                un['ASGI'].append(step)
        bad = False
        for side, other in (('ASGI', 'WSGI'), ('WSGI', 'ASGI')):
            for step in list(un[side]):
                if step not in un[side]:
                    continue
                g, t, st, simple = step
                un[side].remove(step)
                f = pipes[side].f
                same_t = next((x for x in un[other] if x[1] == t), None)
                same_g = next((x for x in un[other] if x[0] == g), None)
                if same_t is not None:
                    un[other].remove(same_t)
                    if not _guards_differ('self.%s, `%s`' % (attr, t), g, t, same_t[0], same_t[1]):
                        raise AnchorError('internal: unmatched steps with equal guards')
                    what = ('the %s constructor applies `%s` to the request %s under the guard {%s}, the %s constructor under {%s}'
                            % (side, t, attr, _guard_text(g) or 'always', other, _guard_text(same_t[0]) or 'always'))
                elif same_g is not None:
                    un[other].remove(same_g)
                    if not (simple and same_g[3]):
                        raise UnknownIdiom('self.%s: under the guard {%s} the %s constructor applies `%s`, the %s constructor `%s`; '
                                           'the rule cannot decide whether they are the same function' % (attr, _guard_text(g) or 'always', side, t, other, same_g[1]))
                    what = ('under the guard {%s} the %s constructor rebinds the request %s with `%s`, the %s constructor with `%s`'
                            % (_guard_text(g) or 'always', side, attr, t, other, same_g[1]))
                else:
                    extra = sorted(pipes[side].raw_used - pipes[other].raw_used)
                    what = ('only the %s constructor rebinds the request %s with `%s`%s: the same request has a different req.%s on the two stacks'
                            % (side, attr, _step_text(g, t), (' (it consults the raw input %s, which the %s constructor does not)' % (', '.join(extra), other)) if extra else '', attr))
                bad = True
                run.fail(what, f, st, where=f.loc(st), witness=wit, runtime_witness=rt)
        if bad:
            continue
        ow, oa = [(g, t) for g, t, _s, _x in rest['WSGI']], [(g, t) for g, t, _s, _x in rest['ASGI']]
        run.check(ow == oa, 'both constructors apply the rebindings of the request %s in the same order' % attr, fa, 'pipeline-order(%s): %s vs %s' % (attr, fw.qual, fa.qual),
                  where=fa.loc(), witness=wit)
        for g, t, st, _x in rest['ASGI']:
            run.ok('both constructors rebind the request %s with `%s`' % (attr, _step_text(g, t)), fa.loc(st), st)
        run.check(pipes['WSGI'].raw_used == pipes['ASGI'].raw_used, 'both constructors consult the same raw inputs on the way to self.%s' % attr, fa,
                  'raw-inputs(%s): %s vs %s' % (attr, fw.qual, fa.qual), where=fa.loc(), witness=wit)


def _reads_own_raw(pl: '_Pipeline') -> bool:
    """The raw input of the pipeline is read by the constructor and flows into the store."""
    for n in walk_no_nested(pl.f.node):
        if isinstance(n, (ast.Assign, ast.AnnAssign)) and n.value is not None:
            tg = n.targets if isinstance(n, ast.Assign) else [n.target]
            if any(pl._is_store_target(t) for t in tg):
                for x in walk_self(n.value):
                    if pl._is_own_raw(x) or (isinstance(x, ast.Name) and x.id in pl.vars):
                        return True
    return False

# ---------------------------------------------------------------------------
# R14 the header mappings hold one entry per request header, whatever its value
# ---------------------------------------------------------------------------

# sample request tables (finite domain): header names of the three CGI classes x values that are
# empty / blank / falsy-looking / ordinary.  PEP 3333: HTTP_* variables and CONTENT_TYPE / CONTENT_LENGTH
# are the request headers; everything else in the environ is not a header.
_R14_HTTP = (('HTTP_HOST', 'example.com'), ('HTTP_X_EMPTY', ''), ('HTTP_IF_NONE_MATCH', ''), ('HTTP_X_BLANK', ' '),
             ('HTTP_X_TOKEN', 'abc'), ('HTTP_X_ZERO', '0'))
_R14_CONTENT = (('CONTENT_TYPE', 'text/plain'), ('CONTENT_LENGTH', '0'))
_R14_CONTENT_BLANK = (('CONTENT_TYPE', ''), ('CONTENT_LENGTH', ''))
_R14_OTHER = (('REQUEST_METHOD', 'GET'), ('PATH_INFO', '/'), ('SERVER_NAME', 'localhost'), ('SERVER_PORT', '80'), ('REMOTE_ADDR', '10.0.0.1'),
              ('wsgi.url_scheme', 'http'), ('HTTPS', 'off'), ('HTTP', 'x'))
_R14_ASGI = ((b'host', b'example.com'), (b'x-empty', b''), (b'if-none-match', b''), (b'x-blank', b' '), (b'x-token', b'abc'),
             (b'x-zero', b'0'), (b'content-type', b''), (b'content-length', b'0'))


def _sample_request(p, cq: str, tables: Dict[str, object]) -> CObj:
    """A stand-in request object: the given request tables plus every attribute a constructor in the
    MRO initialises with a literal constant (the memo sentinels)."""
    attrs: Dict[str, object] = {}
    for k in reversed(p.mro(cq)):
        c = p.classes.get(k)
        init = c.methods.get('__init__') if c is not None else None
        if init is None:
            continue
        for n in walk_no_nested(init.node):
            if isinstance(n, (ast.Assign, ast.AnnAssign)) and isinstance(n.value, ast.Constant):
                for t in (n.targets if isinstance(n, ast.Assign) else [n.target]):
                    if isinstance(t, ast.Attribute) and isinstance(t.value, ast.Name) and t.value.id == 'self':
                        attrs[t.attr] = n.value.value
    attrs.update(tables)
    return CObj(cq, attrs)


def _r14_decider(trace, fq: str, pred, want: str):
    """The construct that decided the fate of the sample item: the last test (want='test') or the last store
    (want='assign') evaluated in f while iterating over an item for which pred holds; else the loop itself."""
    cur = False
    last = None
    for t in trace:
        if t[3] != fq:
            continue
        if t[0] == 'iter':
            cur = pred(t[2])
            if cur:
                it = t[1].iter if isinstance(t[1], ast.For) else t[1].generators[0].iter
                last = 'for ... in %s' % short(it, 80)
        elif cur and t[0] == want and not (want == 'assign' and isinstance(t[1], ast.Assign) and all(isinstance(x, ast.Name) for x in t[1].targets)):
            last = t[1]
    return last


def _r14_saw(trace, fq, name, key) -> bool:
    return any(t[0] == 'iter' and t[3] == fq and isinstance(t[2], tuple) and len(t[2]) == 2 and isinstance(t[2][0], (str, bytes))
               and (t[2][0] == name or (isinstance(t[2][0], str) and t[2][0].lower() == key)) for t in trace)


def r14_header_mapping_entries(run):
    """req.headers / req.headers_lower hold one entry for EVERY request header, with the value as received: on WSGI
    one per HTTP_* environ key and one for a non-blank CONTENT_TYPE / CONTENT_LENGTH, nothing for a non-header
    key; on ASGI one per (name, value) pair.  Decided by evaluating the four accessors on a sample request table
    (header values empty / blank / '0' / ordinary): which entries exist may not depend on the value.
    (A blank CONTENT_TYPE / CONTENT_LENGTH placeholder may or may not be reported: not demanded.)
    W: `X-Empty:` -> 'x-empty' in req.headers_lower on ASGI, missing on WSGI."""
    p = run.project
    mw, ma = effective_members(p, WSGI_REQ), effective_members(p, ASGI_REQ)
    plans = []
    env1 = dict(_R14_OTHER[:4] + _R14_HTTP[:3] + _R14_CONTENT + _R14_OTHER[4:] + _R14_HTTP[3:])
    env2 = dict(_R14_OTHER[:2] + _R14_CONTENT_BLANK + _R14_HTTP)
    for acc in ('headers', 'headers_lower'):
        for cq, mem, table, samples in ((WSGI_REQ, mw, 'env', (env1, env2)), (ASGI_REQ, ma, '_asgi_headers', (dict(_R14_ASGI),))):
            m = mem.get(acc)
            if m is None or m.func is None or not m.func.is_property():
                raise AnchorError('%s.%s is not a property' % (cq, acc))
            plans.append((cq, acc, m.func, table, samples))
    for cq, acc, f, table, samples in plans:
        run.use(f)
        wsgi = cq == WSGI_REQ
        groups: Dict[str, List[tuple]] = {}
        order = ['HTTP_* variables', 'CONTENT_TYPE / CONTENT_LENGTH', 'non-header environ keys'] if wsgi else ['header pairs']
        problems: Dict[str, dict] = {}
        n_items = {g: 0 for g in order}
        for sample in samples:
            ev = ConcreteEval(p)
            obj = _sample_request(p, cq, {table: dict(sample)})
            try:
                got = ev.getattr(obj, acc, f, None)
            except CRaise as ex:
                raise UnknownIdiom('%s: evaluating the accessor on the sample request raised %s at %s' % (f.qual, ex.cls, short(ex.node, 60) if ex.node is not None else '?'))
            if not isinstance(got, dict) or not all(isinstance(k, str) and isinstance(v, str) for k, v in got.items()):
                raise UnknownIdiom('%s: the accessor does not answer a str -> str mapping on the sample request (%s)' % (f.qual, type(got).__name__))
            low: Dict[str, List[tuple]] = {}
            for k, v in got.items():
                low.setdefault(k.lower(), []).append((k, v))
            claimed = set()
            for name, value in sample.items():
                if wsgi:
                    if name.startswith('HTTP_'):
                        grp, key, need = order[0], name[5:].replace('_', '-').lower(), True
                    elif name in ('CONTENT_TYPE', 'CONTENT_LENGTH'):
                        grp, key, need = order[1], name.replace('_', '-').lower(), (True if value.strip() else None)
                    else:
                        grp, key, need = order[2], None, False
                    want_v = value
                else:
                    grp, key, need, want_v = order[0], name.decode('latin-1').lower(), True, value.decode('latin-1')
                n_items[grp] += 1
                if key is None:
                    continue
                claimed.add(key)
                ent = low.get(key, [])
                bad = None
                if not ent and need:
                    bad = ('dropped', 'no entry for the request header %r (value %r)' % (name, value), 'test')
                elif len(ent) > 1:
                    bad = ('duplicate', 'the request header %r appears under %d keys %s' % (name, len(ent), sorted(k for k, _v in ent)), 'assign')
                elif ent and ent[0][1] != want_v:
                    bad = ('value', 'the entry for %r holds %r, the request carried %r' % (name, ent[0][1], want_v), 'assign')
                elif ent and acc == 'headers_lower' and ent[0][0] != key:
                    bad = ('case', 'headers_lower key %r is not lower-case' % ent[0][0], 'assign')
                if bad is not None:
                    own_iter = any(t[0] == 'iter' and t[3] == f.qual for t in ev.trace)
                    if bad[0] == 'dropped' and not own_iter or (bad[0] == 'dropped' and acc == 'headers_lower' and not _r14_saw(ev.trace, f.qual, name, key)):
                        continue  # built from the sibling accessor, which lost the entry and is examined itself
                    cons = _r14_decider(ev.trace, f.qual, lambda it, name=name: isinstance(it, tuple) and len(it) == 2 and (
                        it[0] == name or (isinstance(it[0], str) and isinstance(name, str) and it[0].lower() == (key or '').lower())), bad[2])
                    d = problems.setdefault((grp, bad[0], short(cons, 120) if cons is not None else 'mapping'), {'cons': cons, 'what': []})
                    d['what'].append(bad[1])
            for k in sorted(set(low) - claimed):
                src = [n for n in sample if isinstance(n, str) and n.replace('_', '-').lower() == k] if wsgi else []
                grp = order[2] if wsgi else order[0]
                cons = _r14_decider(ev.trace, f.qual, lambda it, src=src: isinstance(it, tuple) and len(it) == 2 and it[0] in src, 'assign') if src else None
                d = problems.setdefault((grp, 'extra', short(cons, 120) if cons is not None else 'mapping'), {'cons': cons, 'what': []})
                d['what'].append('an entry %r = %r that is not a request header' % (low[k][0][0], low[k][0][1]))
        failed_groups = {g for (g, _k, _c) in problems}
        for g in order:
            if g not in failed_groups:
                run.ok('%s.%s on the sample request: %s (%d samples, values empty / blank / "0" / ordinary) -> %s' % (
                    cq, acc, g, n_items[g], 'no entry' if g == 'non-header environ keys' else 'one entry each, value as received'), f.loc(), '%s(%s)' % (acc, g))
        for (g, kind, _c), d in sorted(problems.items(), key=lambda kv: kv[0]):
            cons = d['cons'] if d['cons'] is not None else 'mapping(%s)' % g
            run.fail('%s.%s does not hold exactly one entry per request header with the value as received (%s): %s; '
                     'the sibling stack reports the header, so the same request is seen differently' % (cq, acc, g, d['what'][0]),
                     f, cons, where=f.loc(cons) if isinstance(cons, ast.AST) else f.loc(), witness=d['what'][:8],
                     runtime_witness="a request with the header `X-Empty:` (empty value): 'x-empty' in req.headers_lower on one stack, missing on the other")

# ---------------------------------------------------------------------------
# R15 one-shot scope fields are consumed at one memoised site per request
# ---------------------------------------------------------------------------

# scope key -> reason it may be readable only once
ONE_SHOT_SCOPE_KEYS = {
    'client': 'ASGI: "an iterable of [host, port]" -- may be forward-only; falcon.testing.create_scope passes iter([addr, port])',
    'server': 'ASGI: "an iterable of [host, port]" -- may be forward-only; falcon.testing.create_scope passes iter([host, port])',
}


def _scope_reads(f: Func, key: str):
    out = []
    for n in walk_no_nested(f.node):
        tbl = k = None
        if isinstance(n, ast.Subscript) and isinstance(n.ctx, ast.Load):
            tbl, k = table_of(f, n.value), n.slice
        elif isinstance(n, ast.Call) and isinstance(n.func, ast.Attribute) and n.func.attr in ('get', 'pop', 'setdefault') and n.args:
            tbl, k = table_of(f, n.func.value), n.args[0]
        if tbl is not None and tbl[0] == 'scope' and isinstance(k, ast.Constant) and k.value == key:
            out.append(n)
    return out


def _memo_guard(p, f: Func, site) -> Optional[str]:
    """The attribute A such that the site runs only while self.A is unset (a dominating branch outcome says
    `self.A is None` / `not self.A`) and every feasible way from the site to a normal return stores self.A (so
    the next access takes the other branch).  Feasibility: while self.A is still unset, a branch outcome that
    says it is set cannot be taken.  None if there is no such attribute."""
    from .common import implied
    cfg = cfg_of(f, p)
    nid = node_of(cfg, site)

    def atoms(a):
        def sentinel(e):
            return (isinstance(e, ast.Constant) and e.value is None) or (isinstance(e, ast.Name) and e.id == '_UNSET')

        def unset_is(e):
            return isinstance(e, ast.Compare) and len(e.ops) == 1 and isinstance(e.ops[0], ast.Is) and is_self_attr(e.left, a) and sentinel(e.comparators[0])

        def set_isnot(e):
            return isinstance(e, ast.Compare) and len(e.ops) == 1 and isinstance(e.ops[0], ast.IsNot) and is_self_attr(e.left, a) and sentinel(e.comparators[0])

        def truthy(e):
            return is_self_attr(e, a)
        return unset_is, set_isnot, truthy

    cands: Dict[str, str] = {}
    for test, truth in branch_facts(cfg, nid):
        for x in walk_self(test):
            if isinstance(x, ast.Attribute) and isinstance(x.value, ast.Name) and x.value.id == 'self':
                unset_is, set_isnot, truthy = atoms(x.attr)
                if implied(test, truth, unset_is) is True or implied(test, truth, set_isnot) is False:
                    cands[x.attr] = 'sentinel'
                elif implied(test, truth, truthy) is False:
                    cands.setdefault(x.attr, 'falsy')
    for a in sorted(cands):
        unset_is, set_isnot, truthy = atoms(a)
        exact = cands[a] == 'sentinel'

        def labeler(n, a=a):
            if n.kind == 'stmt' and isinstance(n.ast, (ast.Assign, ast.AnnAssign)) and getattr(n.ast, 'value', None) is not None:
                tg = n.ast.targets if isinstance(n.ast, ast.Assign) else [n.ast.target]
                if any(is_self_attr(t, a) for t in tg):
                    return ['STORE']
            return []

        def delta(st, lab):
            return 'S' if lab == 'STORE' else st

        def edge_delta(st, x, y, l):
            n = cfg.node(x)
            if n.kind == 'test' and l in ('T', 'F'):
                tr = l == 'T'
                says_set = implied(n.ast, tr, truthy) is True or (exact and (implied(n.ast, tr, set_isnot) is True or implied(n.ast, tr, unset_is) is False))
                says_unset = implied(n.ast, tr, unset_is) is True or implied(n.ast, tr, set_isnot) is False
                if st == 'U' and says_set:
                    return None
                if st == 'S' and says_unset and exact:
                    return None
            return st

        cex, _ns, _nt = flow.typestate(cfg, labeler, delta, 'U', exit_ok=lambda st: st == 'S', start=nid, edge_delta=edge_delta)
        if cex is None:
            return a
    return None


def _no_exotic_memo(p, f: Func, site, key: str):
    """The site is not behind a readable memo test.  Before that counts as "consumed on every call", make sure it
    is not behind a memo idiom this rule does not read (hasattr / __dict__ probing, try: self.<x> except
    AttributeError, functools caching): those are unknown idioms, not violations."""
    cfg = cfg_of(f, p)
    nid = node_of(cfg, site)
    for test, _truth in branch_facts(cfg, nid):
        for x in walk_self(test):
            if isinstance(x, ast.Call) and isinstance(x.func, ast.Name) and x.func.id in ('hasattr', 'getattr'):
                raise UnknownIdiom("%s: scope[%r] is read behind %s; the rule does not read this memo idiom" % (f.qual, key, short(test, 80)))
            if isinstance(x, ast.Attribute) and x.attr in ('__dict__', '__slots__'):
                raise UnknownIdiom("%s: scope[%r] is read behind %s; the rule does not read this memo idiom" % (f.qual, key, short(test, 80)))
    parent = enclosing_map(f.node)
    for anc in _ancestors(site, parent):
        if isinstance(anc, ast.ExceptHandler) and anc.type is not None and any(
                isinstance(x, ast.Name) and x.id == 'AttributeError' for x in walk_self(anc.type)):
            raise UnknownIdiom("%s: scope[%r] is read in an `except AttributeError` arm (an EAFP memo?); the rule does not read this idiom" % (f.qual, key))
    top = f
    while top is not None:
        if any(('cache' in d or 'cached' in d or 'memo' in d) for d in top.decorators):
            raise UnknownIdiom("%s: scope[%r] is read inside a function decorated with %s; the rule does not read this memo idiom" % (
                f.qual, key, ', '.join(top.decorators)))
        top = top.parent


def r15_one_shot_scope_fields(run):
    """The ASGI scope's `client` / `server` are only promised to be iterables; they may be forward-only (falcon's
    own test client passes iter([...])).  Per request object each is therefore read at exactly ONE site, and that
    site runs at most once: it sits in the constructor, or behind the unset-test of a memo attribute that every
    way from the site to a normal return stores.  Every other accessor reads the memo.
    W: simulate_get(asgi_app, remote_addr='10.1.2.3'); req.remote_addr twice (or remote_addr, then access_route):
    the second unpacking finds an exhausted iterator -> ValueError -> 500."""
    p = run.project
    funcs = [f for f in p.all_functions() if f.module.name.startswith('falcon.asgi') or (f.cls is not None and f.cls.qual in (WSGI_REQ, ASGI_REQ))]
    for key, why in sorted(ONE_SHOT_SCOPE_KEYS.items()):
        sites = []
        for f in funcs:
            for n in _scope_reads(f, key):
                sites.append((f, n))
        if not sites:
            raise AnchorError("no read of scope[%r] found in falcon.asgi (the request class used to consume it once, memoised)" % key)
        once = []
        for f, n in sites:
            run.use(f)
            top = f
            while top.parent is not None:
                top = top.parent
            if top is f and f.name == '__init__' and f.cls is not None and f.cls.qual == ASGI_REQ:
                parent = enclosing_map(f.node)
                in_loop = any(isinstance(a, (ast.For, ast.While, ast.AsyncFor)) for a in _ancestors(n, parent))
                once.append((f, n, 'the constructor' if not in_loop else None))
            else:
                a = _memo_guard(p, f, n)
                if a is None:
                    _no_exotic_memo(p, f, n, key)
                once.append((f, n, ('the memo self.%s' % a) if a else None))
        good = [(f, n, how) for f, n, how in once if how]
        for f, n, how in once:
            st = _stmt_of(f, n)
            if how is None:
                run.fail("scope[%r] is consumed here on every call, outside any memo (%s): a second access of the request's client/server "
                         'information finds the iterable exhausted' % (key, why), f, st, where=f.loc(n),
                         witness=['other site(s): %s' % ', '.join('%s (%s)' % (g.qual, h or 'unguarded') for g, m_, h in once if m_ is not n) or 'none'],
                         runtime_witness="scope['%s'] = iter([...]) (falcon.testing does this): req.remote_addr read twice, or remote_addr and "
                                         'access_route -> ValueError: not enough values to unpack (a 500); WSGI and tuple-passing servers are fine' % key)
            elif len(good) > 1:
                run.fail("scope[%r] is consumed at %d sites, each behind its own memo (%s): whichever runs second finds the iterable exhausted"
                         % (key, len(good), why), f, st, where=f.loc(n), witness=['sites: %s' % ', '.join('%s (%s)' % (g.qual, h) for g, _m, h in good)],
                         runtime_witness="scope['%s'] = iter([...]): the second of the accessors to run raises ValueError / sees an empty value" % key)
            else:
                run.ok("scope[%r] is consumed at one site that runs at most once per request (%s)" % (key, how), f.loc(n), st)


# ---------------------------------------------------------------------------
# R16 header emitters: per-item transformation parity (_wsgi_headers / _asgi_headers)
# ---------------------------------------------------------------------------

WSGI_EMITTER = 'falcon.response.Response._wsgi_headers'
ASGI_EMITTER = 'falcon.asgi.response.Response._asgi_headers'

# the three things both emitters deliver, recognised by the response attribute they iterate
_EMIT_SOURCES = {'_headers': ('store', 'map'), '_extra_headers': ('extra', 'pairs'), '_cookies': ('cookies', 'map')}
# the documented ASGI-only step: header names and values are byte strings (ASGI HTTP spec); the WSGI server performs the
# same ISO-8859-1 encoding of the native strings itself (PEP 3333).  group -> codecs under which ASGI delivers the bytes
# the WSGI server would put on the wire (ASCII is the common subset used for cookies / extra headers)
_EMIT_CODECS = {'store': ('iso8859-1',), 'extra': ('ascii', 'iso8859-1'), 'cookies': ('ascii', 'iso8859-1')}
_COOKIE_TEXT = '__cookie_text__'


class _EmitGroup:
    """one group of emitted headers: the per-item name / value expressions
    relative to the loop variables (None: the stored pair as it is)"""

    def __init__(self, group, fn, site, name_e=None, value_e=None, name_root=None, value_root=None, pre=()):
        self.group, self.fn, self.site = group, fn, site
        self.name_e, self.value_e, self.name_root, self.value_root = name_e, value_e, name_root, value_root
        self.pre = list(pre)   # statements of the loop body that run before the item is appended (they may rebind the loop variables)


class _EmitReader:
    def __init__(self, p, f: Func):
        self.p, self.f = p, f
        self.helpers: List[Func] = []

    # ---- what an expression iterates
    def _kind(self, fn: Func, env, e):
        """(group, 'map' | 'pairs' | 'values') or None"""
        if isinstance(e, ast.Name) and e.id in env:
            return env[e.id]
        if isinstance(e, ast.Attribute) and isinstance(e.value, ast.Name) and e.value.id == 'self' and fn is self.f and e.attr in _EMIT_SOURCES:
            return _EMIT_SOURCES[e.attr]
        if isinstance(e, ast.Call) and isinstance(e.func, ast.Attribute) and not e.args and not e.keywords:
            base = self._kind(fn, env, e.func.value)
            if base is not None and base[1] == 'map':
                if e.func.attr == 'items' and base[0] != 'cookies':
                    return (base[0], 'pairs')
                if e.func.attr == 'values' and base[0] == 'cookies':
                    return (base[0], 'values')
        return None

    def _env(self, fn: Func, seed=None):
        """locals all of whose bindings are one of the sources"""
        env = dict(seed or {})
        binds: Dict[str, list] = {}
        for n in walk_self(fn.node):
            if isinstance(n, ast.Assign):
                for t in n.targets:
                    for x in ast.walk(t):
                        if isinstance(x, ast.Name) and isinstance(x.ctx, ast.Store):
                            binds.setdefault(x.id, []).append(self._kind(fn, env, n.value) if t is x else None)
            elif isinstance(n, (ast.AnnAssign, ast.AugAssign, ast.NamedExpr)) and isinstance(n.target, ast.Name):
                binds.setdefault(n.target.id, []).append(self._kind(fn, env, n.value) if isinstance(n, ast.AnnAssign) and n.value is not None else None)
            elif isinstance(n, (ast.For, ast.AsyncFor)):
                for x in ast.walk(n.target):
                    if isinstance(x, ast.Name):
                        binds.setdefault(x.id, []).append(None)
        for k, v in binds.items():
            if k in env:
                raise UnknownIdiom('%s: the header source %s is rebound' % (fn.qual, k))
            if v and v[0] is not None and all(x == v[0] for x in v):
                env[k] = v[0]
        return env

    # ---- one expression contributing items
    def _pair(self, fn, elt, what):
        if not (isinstance(elt, ast.Tuple) and len(elt.elts) == 2):
            raise UnknownIdiom('%s: emitted item %s is not a (name, value) pair display' % (fn.qual, short(elt)))
        return elt.elts

    def _iterated(self, fn, env, target, it, site):
        """(group, name_root, value_root) for `for <target> in <it>`"""
        k = self._kind(fn, env, it)
        if k is None or k[1] == 'map':
            raise UnknownIdiom('%s: cannot read what %s iterates' % (fn.qual, short(site)))
        if k[1] == 'pairs':
            if not (isinstance(target, ast.Tuple) and len(target.elts) == 2 and all(isinstance(x, ast.Name) for x in target.elts)):
                raise UnknownIdiom('%s: loop target %s over header pairs' % (fn.qual, short(target)))
            return k[0], target.elts[0].id, target.elts[1].id
        if not isinstance(target, ast.Name):
            raise UnknownIdiom('%s: loop target %s over the cookies' % (fn.qual, short(target)))
        return k[0], None, target.id

    def items_of(self, fn: Func, env, e, depth=0) -> List[_EmitGroup]:
        k = self._kind(fn, env, e)
        if k is not None and k[1] == 'pairs':
            return [_EmitGroup(k[0], fn, e)]
        if isinstance(e, (ast.List, ast.Tuple)):
            out = []
            for x in e.elts:
                if not isinstance(x, ast.Starred):
                    raise UnknownIdiom('%s: a literal header item in %s' % (fn.qual, short(e)))
                out += self.items_of(fn, env, x.value, depth)
            return out
        if isinstance(e, ast.BinOp) and isinstance(e.op, ast.Add):
            return self.items_of(fn, env, e.left, depth) + self.items_of(fn, env, e.right, depth)
        if isinstance(e, (ast.ListComp, ast.GeneratorExp)):
            if len(e.generators) != 1 or e.generators[0].ifs or e.generators[0].is_async:
                raise UnknownIdiom('%s: filtered / nested comprehension %s over the headers' % (fn.qual, short(e)))
            g = e.generators[0]
            group, nr, vr = self._iterated(fn, env, g.target, g.iter, e)
            ne, ve = self._pair(fn, e.elt, e)
            return [_EmitGroup(group, fn, e, ne, ve, nr, vr)]
        if isinstance(e, ast.Call) and len(e.args) == 1 and not e.keywords and not isinstance(e.args[0], ast.Starred):
            q = self.p.resolve_expr(fn.module, e.func, fn)
            if q in ('builtins.list', 'builtins.tuple', 'builtins.iter'):
                return self.items_of(fn, env, e.args[0], depth)
            g = self.p.callee(fn, e)
            ak = self._kind(fn, env, e.args[0])
            if isinstance(g, Func) and ak is not None and g.cls is None and not g.is_async and depth < 2:
                return self._helper(g, ak, depth + 1)
        raise UnknownIdiom('%s: cannot read which header items %s contributes' % (fn.qual, short(e)))

    def _helper(self, g: Func, arg_kind, depth) -> List[_EmitGroup]:
        params = g.params()
        a = g.node.args
        if len(params) != 1 or a.vararg or a.kwarg:
            raise UnknownIdiom('%s: helper signature not read' % g.qual)
        self.helpers.append(g)
        return self.built_list(g, {params[0]: arg_kind}, depth)

    # ---- the list a function returns
    def built_list(self, fn: Func, seed, depth=0) -> List[_EmitGroup]:
        env = self._env(fn, seed)
        rets = [n for n in walk_self(fn.node) if isinstance(n, ast.Return)]
        if not rets:
            raise AnchorError('%s returns nothing' % fn.qual)
        names = {n.value.id if isinstance(n.value, ast.Name) else None for n in rets}
        if names == {None} and len(rets) == 1 and rets[0].value is not None:
            return self.items_of(fn, env, rets[0].value, depth)
        if len(names) != 1 or None in names:
            raise UnknownIdiom('%s: the returned header list is not one local on every path' % fn.qual)
        acc = names.pop()
        parent = enclosing_map(fn.node)
        out: List[_EmitGroup] = []
        seen: Set[int] = set()
        for n in walk_self(fn.node):
            if not (isinstance(n, ast.Name) and n.id == acc):
                continue
            par = parent.get(id(n))
            if isinstance(par, ast.Return):
                continue
            if isinstance(par, ast.Assign) and par.targets == [n]:
                v = par.value
                if isinstance(v, ast.BinOp) and isinstance(v.op, ast.Add) and isinstance(v.left, ast.Name) and v.left.id == acc:
                    v = v.right          # `acc = acc + <more>` is `acc += <more>`
                if not (isinstance(v, (ast.List, ast.Tuple)) and not v.elts):
                    out += self.items_of(fn, env, v, depth)
                continue
            if isinstance(par, ast.BinOp) and isinstance(par.op, ast.Add) and par.left is n and isinstance(parent.get(id(par)), ast.Assign) \
                    and parent[id(par)].value is par and len(parent[id(par)].targets) == 1 and isinstance(parent[id(par)].targets[0], ast.Name) \
                    and parent[id(par)].targets[0].id == acc:
                continue                 # the left operand of `acc = acc + <more>` (read with the store)
            if isinstance(par, ast.AnnAssign) and par.target is n and par.value is not None:
                if not (isinstance(par.value, (ast.List, ast.Tuple)) and not par.value.elts):
                    out += self.items_of(fn, env, par.value, depth)
                continue
            if isinstance(par, ast.AugAssign) and par.target is n and isinstance(par.op, ast.Add):
                out += self.items_of(fn, env, par.value, depth)
                continue
            call = parent.get(id(par)) if isinstance(par, ast.Attribute) and par.value is n else None
            if isinstance(call, ast.Call) and call.func is par and len(call.args) == 1 and not call.keywords \
                    and isinstance(parent.get(id(call)), ast.Expr):
                if par.attr == 'extend':
                    out += self.items_of(fn, env, call.args[0], depth)
                    continue
                if par.attr == 'append':
                    loop = None
                    cur = parent.get(id(call))
                    while cur is not None and cur is not fn.node:
                        if isinstance(cur, (ast.For, ast.AsyncFor, ast.While)):
                            loop = cur
                            break
                        cur = parent.get(id(cur))
                    if not isinstance(loop, ast.For) or loop.orelse:
                        raise UnknownIdiom('%s: %s outside a plain for loop over a header source' % (fn.qual, short(call)))
                    # the append runs once per iteration: directly in the loop body, no branch, no continue/break
                    if parent.get(id(parent.get(id(call)))) is not loop or any(isinstance(x, (ast.Continue, ast.Break, ast.Return))
                                                                              for x in walk_self(loop)):
                        raise UnknownIdiom('%s: %s does not run once per header' % (fn.qual, short(call)))
                    group, nr, vr = self._iterated(fn, env, loop.target, loop.iter, loop)
                    ne, ve = self._pair(fn, call.args[0], call)
                    if id(loop) in seen:
                        raise UnknownIdiom('%s: two appends per header in one loop' % fn.qual)
                    seen.add(id(loop))
                    stmt = parent.get(id(call))
                    out.append(_EmitGroup(group, fn, call, ne, ve, nr, vr, pre=loop.body[:loop.body.index(stmt)]))
                    continue
            raise UnknownIdiom('%s: cannot read the use %s of the header list' % (fn.qual, short(par if par is not None else n)))
        return out


class _CookieText(ast.NodeTransformer):
    """`<c>.OutputString()` (the cookie's header text, the same call on both stacks) becomes the tracked root"""

    def __init__(self, root):
        self.root, self.n = root, 0

    def visit_Call(self, c):
        if isinstance(c.func, ast.Attribute) and c.func.attr == 'OutputString' and isinstance(c.func.value, ast.Name) and c.func.value.id == self.root \
                and not c.args and not c.keywords:
            self.n += 1
            return ast.copy_location(ast.Name(id=_COOKIE_TEXT, ctx=ast.Load()), c)
        return self.generic_visit(c)


_SYNTH_KEEP: List[ast.AST] = []   # the CFG cache is keyed by id(node): synthetic defs stay alive


def _emit_steps(p, g: _EmitGroup, which: str):
    """[(kind, node, reason)] outermost first: how the emitted name / value differs from the stored one; or
    ('const', value) for a constant name.  The per-item code (the statements of the loop body before the append, then
    the pair) is read as a function of the loop variables, so a rebinding `value = value.strip()` counts."""
    import copy

    from .c15_helpers import Provenance

    e = g.name_e if which == 'name' else g.value_e
    root = g.name_root if which == 'name' else g.value_root
    if e is None:
        return []
    if isinstance(e, ast.Constant):
        return ('const', e.value)
    if root is None:
        raise UnknownIdiom('%s: the header %s %s is not built from the loop variable' % (g.fn.qual, which, short(e)))
    body = list(g.pre) + [ast.copy_location(ast.Return(value=e), e)]
    params = [x for x in (g.name_root, g.value_root) if x is not None]
    if g.group == 'cookies':
        tr = _CookieText(root)
        body = [tr.visit(copy.deepcopy(st)) for st in body]
        if tr.n < 1 or any(isinstance(x, ast.Name) and x.id == root for st in body for x in ast.walk(st)):
            raise UnknownIdiom('%s: the cookie header value %s is not built from <cookie>.OutputString() alone' % (g.fn.qual, short(e)))
        params, root = [_COOKIE_TEXT], _COOKIE_TEXT
    node = ast.FunctionDef(name='_item', args=ast.arguments(posonlyargs=[], args=[ast.arg(arg=x) for x in params], kwonlyargs=[], kw_defaults=[], defaults=[]),
                           body=body, decorator_list=[], type_params=[])
    ast.copy_location(node, e)
    ast.fix_missing_locations(node)
    _SYNTH_KEEP.append(node)
    item = Func(node, g.fn.qual + '.<item>', g.fn.module, None, g.fn)
    pv = Provenance(p, item, root)
    ret = [n for n in pv.cfg.live_nodes() if n.kind == 'stmt' and n.ast is body[-1]]
    if len(ret) != 1:
        raise AnchorError('%s: %s is not evaluated by a live CFG node' % (g.fn.qual, short(e)))
    o = pv.classify(body[-1].value, ret[0].id)
    if not o.derived:
        raise UnknownIdiom('%s: the header %s %s is not built from the stored one' % (g.fn.qual, which, short(e)))
    return list(o.xforms)


def _emit_norm(step):
    kind, node, _why = step
    if isinstance(node, ast.Call) and isinstance(node.func, ast.Attribute):
        return ('m', node.func.attr, tuple(unparse(a) for a in node.args) + tuple('%s=%s' % (k.arg, unparse(k.value)) for k in node.keywords))
    return ('x', kind, type(node).__name__)


def _emit_codec(p, fn: Func, node) -> Optional[str]:
    """codec of `<x>.encode(...)`; None when the call has arguments the rule does not read"""
    if not (isinstance(node, ast.Call) and isinstance(node.func, ast.Attribute) and node.func.attr == 'encode'):
        return None
    args = list(node.args)
    kw = {k.arg: k.value for k in node.keywords}
    if len(args) > 1 or set(kw) - {'encoding'} or (args and kw):
        return None
    ce = args[0] if args else kw.get('encoding')
    if ce is None:
        return 'utf-8'
    v = ce.value if isinstance(ce, ast.Constant) else p.fold(fn.module, ce, None, fn)
    return _codec(v) if isinstance(v, str) else None


def _owner(p, node, default: Func) -> Func:
    """the function whose text contains `node` (a step may sit in a helper that was looked through)"""
    def has(fn):
        return any(x is node for x in ast.walk(fn.node))
    if has(default):
        return default
    best = None
    for fn in p.funcs.values():
        if has(fn) and (best is None or len(fn.qual) > len(best.qual)):
            best = fn   # innermost def
    return best or default


def r16_header_emitters(run):
    """Both header emitters deliver every stored (name, value) pair - the
    header store, the extra headers, the cookies - with the text unchanged;
    the only step one stack may have on its own is the tabled one: ASGI encodes
    name and value to bytes with ISO-8859-1 (ASCII for cookies / extra
    headers), which is what a WSGI server does with the native strings itself.
    The per-item name / value expressions of both emitters are read (through
    the module-level helper that builds the list) as chains of text steps and
    compared; a strip / lower / replace / slice of the VALUE on one stack only
    is a response whose header set depends on the stack.
    Runtime witness: resp.set_header('X-Tags', 'alpha beta ') -> WSGI delivers
    'alpha beta ', ASGI delivers b'alpha beta'."""
    p = run.project
    sides = {}
    for tag, q in (('WSGI', WSGI_EMITTER), ('ASGI', ASGI_EMITTER)):
        f = p.func(q)
        rd = _EmitReader(p, f)
        groups: Dict[str, _EmitGroup] = {}
        for g in rd.built_list(f, None):
            if g.group in groups:
                raise UnknownIdiom('%s: the %s headers are emitted twice' % (f.qual, g.group))
            groups[g.group] = g
        sides[tag] = (f, groups)
    wf, wg = sides['WSGI']
    af, ag = sides['ASGI']
    if set(wg) != set(ag) or 'store' not in wg:
        raise AnchorError('header emitters: groups emitted WSGI %s / ASGI %s' % (sorted(wg), sorted(ag)))
    for group in sorted(wg):
        for which in ('name', 'value'):
            ws = _emit_steps(p, wg[group], which)
            as_ = _emit_steps(p, ag[group], which)
            what = ('header emitters, %s %s: delivered unchanged by both stacks (ASGI: encoded with %s, nothing else)'
                    % ({'store': 'resp._headers', 'extra': 'resp._extra_headers', 'cookies': 'resp._cookies'}[group], which,
                       ' / '.join(_EMIT_CODECS[group])))
            site = ag[group].site
            if isinstance(ws, tuple) or isinstance(as_, tuple):
                if not (isinstance(ws, tuple) and isinstance(as_, tuple)):
                    raise UnknownIdiom('header emitters: constant %s %s on one stack only' % (group, which))
                wv, av = ws[1], as_[1]
                same = isinstance(wv, str) and isinstance(av, bytes) and any(_try_encode(wv, c) == av for c in _EMIT_CODECS[group])
                run.check(same, what, af, '%r vs %r' % (wv, av), where=af.loc(site),
                          runtime_witness='a response with a cookie: the header name differs between the stacks')
                continue
            # ---- the tabled ASGI step
            if not as_:
                raise UnknownIdiom('%s: the %s %s is delivered without an encoding step the rule can read' % (ag[group].fn.qual, group, which))
            codec = _emit_codec(p, _owner(p, as_[0][1], ag[group].fn), as_[0][1])
            if codec is None:
                raise UnknownIdiom('%s: outermost step %s of the %s %s is not a plain .encode(<codec>)' % (ag[group].fn.qual, short(as_[0][1]), group, which))
            if codec not in _EMIT_CODECS[group]:
                own = _owner(p, as_[0][1], ag[group].fn)
                run.fail(what + ' [encoded with %s: a non-ASCII character leaves ASGI as other bytes than the ISO-8859-1 ones the WSGI server sends, or not at all]'
                         % codec, own, as_[0][1], where=own.loc(as_[0][1]),
                         runtime_witness="resp.set_header('X-Name', 'caf\\xe9'): WSGI servers send the ISO-8859-1 byte E9")
                continue
            rest_a = as_[1:]
            rest_w = ws
            na = [_emit_norm(s) for s in rest_a]
            nw = [_emit_norm(s) for s in rest_w]
            if which == 'name' and group == 'store':
                # the store's keys are lower-case already (C15): lower() on a name is the identity there
                na = [x for x in na if x[:2] != ('m', 'lower')]
                nw = [x for x in nw if x[:2] != ('m', 'lower')]
                rest_a = [s for s in rest_a if _emit_norm(s)[:2] != ('m', 'lower')]
                rest_w = [s for s in rest_w if _emit_norm(s)[:2] != ('m', 'lower')]
            if na == nw:
                run.ok(what, af.loc(site), '%s %s: %s' % (group, which, ' <- '.join(['encode(%s)' % codec] + ['.'.join(x[1:2]) if x[0] == 'm' else x[2] for x in na]) ))
                continue
            if na and nw and not all(x[0] == 'm' for x in na + nw):
                raise UnknownIdiom('header emitters: both stacks transform the %s %s in ways the rule cannot compare (%s / %s)'
                                   % (group, which, [short(s[1]) for s in rest_w], [short(s[1]) for s in rest_a]))
            # the first step one stack has and the other has not
            extra_a = [s for s, n_ in zip(rest_a, na) if n_ not in nw]
            extra_w = [s for s, n_ in zip(rest_w, nw) if n_ not in na]
            if not extra_a and not extra_w:   # same steps, other order
                extra_a = rest_a[:1]
            for stack, steps, grp in (('ASGI', extra_a, ag[group]), ('WSGI', extra_w, wg[group])):
                for (kind, node, why) in steps:
                    own = _owner(p, node, grp.fn)
                    run.fail(what + ' [%s only: %s]' % (stack, why), own, node, where=own.loc(node) if hasattr(node, 'lineno') else own.loc(),
                             witness=['WSGI steps: %s' % ([short(s[1]) for s in ws] or 'none'),
                                      'ASGI steps: %s' % [short(s[1]) for s in as_]],
                             runtime_witness="resp.set_header('X-Tags', 'alpha beta '): the two stacks deliver different header values "
                                             "('alpha beta ' vs 'alpha beta')")


def _try_encode(s: str, codec: str):
    try:
        return s.encode(codec)
    except (UnicodeError, LookupError):
        return None


def _ancestors(node, parent):
    cur = parent.get(id(node))
    while cur is not None:
        yield cur
        cur = parent.get(id(cur))


def _stmt_of(f: Func, node):
    parent = enclosing_map(f.node)
    cur = node
    while cur is not None and not isinstance(cur, ast.stmt):
        cur = parent.get(id(cur))
    return cur if cur is not None else node


# ---------------------------------------------------------------------------
# R17 the two constructors bind the same public per-request attributes
# ---------------------------------------------------------------------------

# public attributes that exist on one stack only (one reason each)
R17_ONE_STACK: Dict[str, str] = {
    'env': 'the WSGI environ; asgi.Request.env raises by documented design (R2_EXCLUDED)',
    'stream': 'bound by the WSGI constructor; a lazy property on ASGI (C07 R6)',
    'scope': 'the ASGI connection scope; no WSGI counterpart',
}


def _ctor_always_bound(p, cq):
    """(constructor, attributes `self.<a> = ...` bound on EVERY normal path of the constructor)."""
    f = p.func(cq + '.__init__')
    cfg = cfg_of(f, p)

    def stores(n):
        res = set()
        if n.kind == 'stmt' and isinstance(n.ast, (ast.Assign, ast.AnnAssign, ast.AugAssign)):
            if isinstance(n.ast, ast.AnnAssign) and n.ast.value is None:
                return res
            tg = n.ast.targets if isinstance(n.ast, ast.Assign) else [n.ast.target]
            for t in tg:
                for tt in (t.elts if isinstance(t, (ast.Tuple, ast.List)) else [t]):
                    if isinstance(tt, ast.Attribute) and isinstance(tt.value, ast.Name) and tt.value.id == 'self':
                        res.add(tt.attr)
        return res

    def transfer(n, facts, label):
        return facts if label == 'exc' else facts | frozenset(stores(n))

    IN = flow.forward(cfg, transfer, frozenset(), must=True)
    return f, cfg, set(IN.get(cfg.exit, frozenset()))


def _declared_public(p, cq) -> Dict[str, ast.AST]:
    """Public attributes the class body itself declares without a value (`name: T`): the documented per-request attributes."""
    c = p.cls(cq)
    out = {}
    for s in c.node.body:
        if isinstance(s, ast.AnnAssign) and s.value is None and isinstance(s.target, ast.Name) and is_public(s.target.id):
            out[s.target.id] = s
    return out


def r17_ctor_attribute_parity(run):
    """"The same application logic ... sees the same request": a public per-request attribute that one request class binds at
    construction is there on the other stack as well -- bound on every path of that constructor, or supplied by the class
    (an effective property / method / class-level default) -- unless it is tabled as existing on one stack only.  Each
    class's own constructor also binds every public attribute the class body declares (`name: T` without a value; the
    classes use __slots__, so an unbound one raises AttributeError on first read).  (R8 looks only at attributes the
    constructor stores on SOME path; an attribute whose only store was removed is outside its scope.)
    Witness: a process_request middleware reading req.uri_template before routing: AttributeError -> 500 on one stack,
    None on the other."""
    p = run.project
    bound = {}
    for cq in (WSGI_REQ, ASGI_REQ):
        f, cfg, always = _ctor_always_bound(p, cq)
        run.use_cfg(cfg)
        if _calls_super_init(f):
            raise UnknownIdiom('%s.__init__ delegates to the base constructor: bound attributes cannot be read from one body' % cq)
        bound[cq] = (f, always)

    def supplied(cq, attr) -> bool:
        if attr in effective_members(p, cq):
            return True
        _owner, default = p.lookup_class_attr(cq, attr)
        return default is not None

    for here, there in ((WSGI_REQ, ASGI_REQ), (ASGI_REQ, WSGI_REQ)):
        f_there, always_there = bound[there]
        for attr in sorted(a for a in bound[here][1] if is_public(a)):
            if attr in R17_ONE_STACK:
                continue
            ok = attr in always_there or supplied(there, attr)
            run.check(ok, 'req.%s is bound by %s.__init__ on every path, so %s provides it as well (constructor on every path, or a class-level member)'
                      % (attr, here, there), f_there, 'binding of self.%s in %s.__init__' % (attr, there), where=f_there.loc(),
                      runtime_witness='middleware reading req.%s before routing: AttributeError (a 500) on %s, a value on %s' % (attr, there, here))
    for cq in (WSGI_REQ, ASGI_REQ):
        f, always = bound[cq]
        for attr, node in sorted(_declared_public(p, cq).items()):
            ok = attr in always or attr in p.cls(cq).methods or attr in getattr(p.cls(cq), 'accessors', {})
            run.check(ok, '%s declares the per-request attribute `%s` and its constructor binds it on every path' % (cq, attr), f,
                      'declared attribute self.%s in %s.__init__' % (attr, cq), where=f.loc(),
                      runtime_witness='req.%s read before anything else assigned it: AttributeError (the class uses __slots__)' % attr)


# ---------------------------------------------------------------------------
# R18 / R19 the simulated-request drivers: same defaults, same conversions of the shared parameters
# ---------------------------------------------------------------------------

DRIVER_PAIRS = (
    ('falcon.testing.helpers.create_environ', 'falcon.testing.helpers.create_scope'),
    ('falcon.testing.client.simulate_request', 'falcon.testing.client._simulate_request_asgi'),
)
# (wsgi-side function, parameter) -> documented reason why the defaults differ
R18_DEFAULT_DIFFERS: Dict[Tuple[str, str], str] = {
    ('falcon.testing.helpers.create_environ', 'scheme'):
        "wsgi.url_scheme is mandatory (default 'http'); the ASGI scope's scheme key is optional and create_scope omits it when not given",
}


def _defaults(f: Func) -> Dict[str, ast.AST]:
    a = f.node.args
    pos = a.posonlyargs + a.args
    out = dict(zip([x.arg for x in pos[len(pos) - len(a.defaults):]], a.defaults))
    for k, v in zip(a.kwonlyargs, a.kw_defaults):
        if v is not None:
            out[k.arg] = v
    return out


def r18_driver_defaults(run):
    """"Driving either app through falcon.testing's simulated requests yields the same result": a parameter the WSGI
    driver and its ASGI twin share has the same default on both sides (ASGIConductor / the conductor helpers forward
    **kwargs, so the twin's own defaults are what an omitted argument means).  Compared by folded value.
    Witness: ASGIConductor.simulate_get('/', params={'a': ['1', '2']}) sends a=1,2 where the WSGI client sends a=1&a=2."""
    p = run.project
    for wq, aq in DRIVER_PAIRS:
        fw, fa = p.func(wq), p.func(aq)
        run.use(fw)
        run.use(fa)
        dw, da = _defaults(fw), _defaults(fa)
        shared = sorted(set(dw) & set(da))
        if len(shared) < 5:
            raise AnchorError('%s / %s share only %d defaulted parameter(s)' % (wq, aq, len(shared)))
        for name in shared:
            if any(isinstance(d, ast.Constant) and d.value is Ellipsis for d in (dw[name], da[name])):
                raise UnknownIdiom('%s / %s: an @overload stub was indexed instead of the implementation' % (wq, aq))
            vw, va = p.fold(fw.module, dw[name], None, fw), p.fold(fa.module, da[name], None, fa)
            same = (vw == va and type(vw) is type(va)) if (vw is not UNKNOWN and va is not UNKNOWN) else unparse(dw[name]) == unparse(da[name])
            reason = R18_DEFAULT_DIFFERS.get((wq, name))
            if reason is not None:
                run.ok('%s / %s: the default of `%s` differs by design (%s)' % (fw.name, fa.name, name, reason), fa.loc(), '%s=%s' % (name, unparse(da[name])))
                continue
            run.check(same, '%s and %s agree on the default of the shared parameter `%s`' % (fw.name, fa.name, name), fa,
                      '%s: %s (WSGI twin: %s)' % (name, unparse(da[name]), unparse(dw[name])), where=fa.loc(da[name]),
                      runtime_witness='the same simulated request, `%s` not given: the ASGI driver uses %s where the WSGI driver uses %s'
                                      % (name, unparse(da[name]), unparse(dw[name])))


# calls that inspect or render a value without converting / validating it
_NEUTRAL_CALLS = frozenset(('builtins.isinstance', 'builtins.len', 'builtins.iter', 'builtins.callable', 'builtins.getattr', 'builtins.hasattr',
                            'builtins.print', 'builtins.repr', 'builtins.type', 'builtins.id', 'builtins.bool',
                            'builtins.str', 'builtins.format'))      # total renderings: they neither reject nor normalise an input


def _method_ops(node, is_value) -> Set[Tuple[str, str]]:
    """(method name, argument text) of every `<value>.m(<constant arguments>)` under node."""
    res = set()
    for c in walk_no_nested(node):
        if (isinstance(c, ast.Call) and isinstance(c.func, ast.Attribute) and is_value(c.func.value) and not c.keywords
                and all(isinstance(a, ast.Constant) for a in c.args)):
            res.add((c.func.attr, ', '.join(unparse(a) for a in c.args)))
    return res


def _pure_normaliser_ops(p, h: Func, f: Func) -> Optional[Set[Tuple[str, str]]]:
    """When h is a private straight-line helper of f's module that takes ONE value and only inspects / rebuilds it with
    str methods (no raise, no loop, no try, no call other than methods of its parameter with constant arguments and
    neutral builtins): the set of those method calls -- what the helper does to the value, readable at a call site
    that has the same operations written inline.  None for anything else (a validator, a table lookup, a helper that
    calls further functions): such a callee is compared by name only."""
    if h.cls is not None or h.parent is not None or h.module is not f.module or not h.name.startswith('_') or h.is_async or h.decorators:
        return None
    params = h.params()
    if len(params) != 1 or h.node.args.vararg or h.node.args.kwarg:
        return None
    for x in walk_no_nested(h.node):
        if isinstance(x, (ast.Raise, ast.While, ast.For, ast.AsyncFor, ast.Try, ast.With, ast.AsyncWith, ast.Yield, ast.YieldFrom, ast.Await,
                          ast.Global, ast.Nonlocal, ast.Lambda, ast.FunctionDef, ast.AsyncFunctionDef, ast.ClassDef, ast.Subscript,
                          ast.NamedExpr, ast.Assert, ast.Delete)):
            return None
        if isinstance(x, ast.Name) and isinstance(x.ctx, ast.Store):
            return None             # (no locals: every expression is written in terms of the parameter)
        if isinstance(x, ast.Call):
            if isinstance(x.func, ast.Attribute) and isinstance(x.func.value, ast.Name) and x.func.value.id == params[0] and not x.keywords \
                    and all(isinstance(a, ast.Constant) for a in x.args):
                continue
            if p.resolve_callable(h, x.func) in _NEUTRAL_CALLS:
                continue
            return None
    ops = _method_ops(h.node, lambda v: isinstance(v, ast.Name) and v.id == params[0])
    return ops or None


def _param_conversions(p, f: Func, depth=0, ops: Optional[Dict[str, Set[Tuple[str, str]]]] = None) -> Dict[str, Set[str]]:
    """parameter -> qualified names of the functions it is handed to as an argument (directly, or wrapped in another such
    call: `str(int(port))` counts both), looking through module-level helpers that are called for their effect only.
    ops (when given) receives parameter -> the str-method calls with constant arguments made on the parameter's value."""
    params = [a for a in f.params() if a not in ('self', 'cls')]
    out: Dict[str, Set[str]] = {a: set() for a in params}
    parent = enclosing_map(f.node)

    def qual(c):
        t = p.resolve_callable(f, c.func)
        if isinstance(t, Func):
            return t.qual, t
        if isinstance(t, str):
            return t, None
        return None, None

    asg = assignments(f)

    def params_of(e, d=0):
        """the parameters whose value `e` IS on some evaluation: the bare parameter, one of the alternatives of an
        or-chain / conditional expression (`root_path or app or ''`, `x if x is not None else dflt`: k3-c06-2), a local
        bound exactly once to such an expression, or a conversion call handed one of them."""
        if d > 4:
            return set()
        if isinstance(e, ast.Name):
            if e.id in out:
                return {e.id}
            vals = asg.get(e.id, ())
            if len(vals) == 1 and vals[0] is not None:
                return params_of(vals[0], d + 1)
            return set()
        if isinstance(e, ast.BoolOp):
            res = set()
            for v in e.values:
                res |= params_of(v, d + 1)
            return res
        if isinstance(e, ast.IfExp):
            return params_of(e.body, d + 1) | params_of(e.orelse, d + 1)
        if isinstance(e, ast.NamedExpr):
            return params_of(e.value, d + 1)
        if isinstance(e, ast.Call):
            q, _t = qual(e)
            if q is not None and q not in _NEUTRAL_CALLS:
                res = set()
                for a in list(e.args) + [k.value for k in e.keywords]:
                    res |= params_of(a, d + 1)
                return res
        return set()

    if ops is not None:
        for name in out:
            ops.setdefault(name, set()).update(_method_ops(f.node, lambda v, name=name: isinstance(v, ast.Name) and name in params_of(v)))
    for c in walk_no_nested(f.node):
        if not isinstance(c, ast.Call):
            continue
        q, t = qual(c)
        if q is None or q in _NEUTRAL_CALLS:
            continue
        effect_only = isinstance(parent.get(id(c)), ast.Expr)
        # a private module-level helper that is handed SEVERAL of the parameters assembles a piece of the request from
        # them (`_host_header(host, scheme, port_str)`); like a helper called for its effect it is looked through, it is
        # not itself a conversion of any one of them
        assembles = t is not None and t.name.startswith('_') and len({a.id for a in list(c.args) + [k.value for k in c.keywords]
                                                                      if isinstance(a, ast.Name) and a.id in out}) >= 2
        if (effect_only or assembles) and t is not None and t.cls is None and t.module is f.module and depth < 2:
            inner = _param_conversions(p, t, depth + 1)
            tps = [a for a in t.params()]
            for i, a in enumerate(c.args):
                if isinstance(a, ast.Name) and a.id in out and i < len(tps):
                    out[a.id] |= inner.get(tps[i], set())
            for k in c.keywords:
                if isinstance(k.value, ast.Name) and k.value.id in out and k.arg in inner:
                    out[k.value.id] |= inner[k.arg]
            continue
        for a in list(c.args) + [k.value for k in c.keywords]:
            for name in params_of(a):
                out[name].add(q)
    return out


def r19_driver_conversions(run):
    """create_environ and create_scope take the same simulated request apart: a parameter both accept is put through the
    same conversion / validation functions on both sides (`_fixup_http_version(http_version)` -- alias normalisation and
    ValueError for an unknown version; `int(port)` -- a numeric string is documented to be accepted; `uri.decode(path)`).
    Compared as sets of resolved callees per shared parameter, helper functions that are called for their effect looked
    through.  Witness: simulate_get(http_version='1') answers 200 on the WSGI twin and raises UnsupportedError on the
    ASGI twin; port='80' yields `Host: example.org:80` on ASGI and `Host: example.org` on WSGI."""
    p = run.project
    wq, aq = DRIVER_PAIRS[0]
    fw, fa = p.func(wq), p.func(aq)
    run.use(fw)
    run.use(fa)
    ow: Dict[str, Set[Tuple[str, str]]] = {}
    oa: Dict[str, Set[Tuple[str, str]]] = {}
    cw, ca = _param_conversions(p, fw, ops=ow), _param_conversions(p, fa, ops=oa)
    shared = sorted(set(cw) & set(ca))
    if len(shared) < 5:
        raise AnchorError('%s / %s share only %d parameter(s)' % (wq, aq, len(shared)))
    n_conv = 0
    for name in shared:
        n_conv += bool(cw[name] or ca[name])
        for (here, there, fh, ft, ch, ct, ot) in ((wq, aq, fw, fa, cw, ca, oa), (aq, wq, fa, fw, ca, cw, ow)):
            # a private one-value helper that only applies str methods (a pure normaliser extracted on one side): the
            # other side applies it too when it makes the same method calls on the parameter's value inline
            for m in sorted(ch[name] - ct[name]):
                h = p.funcs.get(m)
                hops = _pure_normaliser_ops(p, h, fh) if h is not None else None
                if hops is not None and hops <= ot.get(name, set()):
                    ct[name].add(m)
                    run.ok('%s applies the str operations of %s() {%s} to `%s` inline' % (
                        ft.name, h.name, ', '.join('.%s(%s)' % o for o in sorted(hops)), name), ft.loc(), '%s inline(%s)' % (name, h.name))
            missing = sorted(ch[name] - ct[name])
            if missing:
                run.fail('%s puts the shared parameter `%s` through %s; %s does not: the two drivers hand different requests to the twins'
                         % (fh.name, name, ', '.join(m.rsplit('.', 1)[-1] + '()' for m in missing), ft.name), ft,
                         '`%s`: %s applied by %s only' % (name, ', '.join(m.rsplit('.', 1)[-1] + '()' for m in missing), fh.name), where=ft.loc(),
                         runtime_witness="the same simulate_get(..., %s=<alias / numeric string>) on a WSGI/ASGI twin: one driver normalises or rejects "
                                         "the value, the other passes it on as it is" % name)
        if not (cw[name] - ca[name]) and not (ca[name] - cw[name]):
            run.ok('create_environ / create_scope: the shared parameter `%s` goes through the same conversions {%s}'
                   % (name, ', '.join(sorted(m.rsplit('.', 1)[-1] for m in cw[name])) or '-'), fa.loc(), name)
    if n_conv < 3:
        raise AnchorError('%s / %s: fewer than three shared parameters are converted at all (anchor moved?)' % (wq, aq))

# ---------------------------------------------------------------------------
# R20: the simulated Host header carries the port exactly when it is not the default port of the scheme
# ---------------------------------------------------------------------------

_R20_HOST = 'host.example'
_R20_SCHEMES = ('http', 'https')
_R20_DEFAULT_PORT = {'http': 80, 'https': 443}       # RFC 9110, 4.2.1 / 4.2.2: the default port of each scheme
# not given / http's default / https's default / neither -- each as an int and as the numeric string the drivers document
# ("A string may also be passed, as long as it can be parsed as an int"): both spellings are the same request, so a driver
# that compares the raw argument with the int constants 80 / 443 keeps `:80` for port='80' (s10-c06-3)
# ('080' / '0443': numeric strings in a non-canonical spelling -- a driver that compares STRINGS must compare the
#  normalised str(int(port)), as create_environ does)
_R20_PORTS = (None, 80, 443, 8080, '80', '443', '8080', '080', '0443')


def _host_sinks(p, f: Func):
    """[(statement, value expression)]: where f puts the Host header into the simulated request --
    `env['HTTP_HOST'] = v` (WSGI environ) or `headers.append([b'host', v])` (ASGI scope)."""
    out = []
    for s in walk_no_nested(f.node):
        if isinstance(s, ast.Assign) and len(s.targets) == 1 and isinstance(s.targets[0], ast.Subscript):
            if p.fold(f.module, s.targets[0].slice, None, f) == 'HTTP_HOST':
                out.append((s, s.value))
        elif isinstance(s, ast.Expr) and isinstance(s.value, ast.Call) and isinstance(s.value.func, ast.Attribute) \
                and s.value.func.attr == 'append' and len(s.value.args) == 1 and not s.value.keywords:
            a = s.value.args[0]
            if isinstance(a, ast.Call) and isinstance(a.func, ast.Name) and a.func.id in ('iter', 'tuple', 'list') and len(a.args) == 1:
                a = a.args[0]
            if isinstance(a, (ast.List, ast.Tuple)) and len(a.elts) == 2 and p.fold(f.module, a.elts[0], None, f) in (b'host', 'host'):
                out.append((s, a.elts[1]))
    return out


def _name_loads(node) -> Set[str]:
    return {x.id for x in ast.walk(node) if isinstance(x, ast.Name) and isinstance(x.ctx, ast.Load)}


def _name_stores(node) -> Set[str]:
    out = {x.id for x in ast.walk(node) if isinstance(x, ast.Name) and isinstance(x.ctx, (ast.Store, ast.Del))}
    for x in ast.walk(node):
        # parts.append(...) and the like: the content of a needed local changes
        if isinstance(x, ast.Expr) and isinstance(x.value, ast.Call) and isinstance(x.value.func, ast.Attribute) and isinstance(x.value.func.value, ast.Name):
            out.add(x.value.func.value.id)
    return out


def _backward_slice(f: Func, stmt, exprs):
    """The statements of f that (transitively) compute the locals `exprs` read at `stmt`, in program order, and the
    names the slice leaves free.  Branch conditions AROUND `stmt` are not part of the slice (the question is what the
    value is when the statement runs); statements before it are taken whole, with their own conditions."""
    parent = enclosing_map(f.node)
    needed: Set[str] = set()
    for e in exprs:
        needed |= _name_loads(e)
    picked = []
    child = stmt
    while True:
        a = parent.get(id(child))
        if a is None:
            raise UnknownIdiom('%s: cannot place `%s` in the function body' % (f.qual, short(child, 50)))
        if not isinstance(a, (ast.If, ast.With, ast.FunctionDef, ast.AsyncFunctionDef)):
            raise UnknownIdiom('%s: the Host header is built inside a %s (only if / with nesting is read)' % (f.qual, type(a).__name__))
        blk = next((b for b in (getattr(a, 'body', None), getattr(a, 'orelse', None)) if isinstance(b, list) and any(x is child for x in b)), None)
        if blk is None:
            raise UnknownIdiom('%s: cannot place `%s` in its block' % (f.qual, short(child, 50)))
        i = next(k for k, x in enumerate(blk) if x is child)
        for s in reversed(blk[:i]):
            if isinstance(s, (ast.FunctionDef, ast.AsyncFunctionDef, ast.ClassDef)):
                continue
            if _name_stores(s) & needed:
                picked.append(s)
                needed |= _name_loads(s)
        if a is f.node:
            break
        child = a
    picked.reverse()
    return picked, needed


def _r20_run(ev: ConcreteEval, f: Func, stmts, env, what):
    try:
        ev.run(stmts, env, f)
    except CRaise as ex:
        raise UnknownIdiom('%s: evaluating the statements that build the Host header raises %s for %s' % (f.qual, ex.cls, what))
    except Unreadable:
        raise
    except Exception as ex:     # a return / break inside the slice
        if type(ex).__name__ in ('_CReturn', '_CBreak', '_CContinue'):
            raise UnknownIdiom('%s: the statements that build the Host header leave the function early for %s' % (f.qual, what))
        raise


def _r20_env(p, ev, f: Func, free: Set[str], given: Dict[str, object]):
    """values for the parameters the slice leaves free: the cell's, or the parameter's own default"""
    env: Dict[str, object] = {}
    defaults = _defaults(f)
    for n in sorted(free):
        if n not in f.params():
            continue                    # a module-level name: the evaluator resolves it
        if n in given:
            env[n] = given[n]
        elif n in defaults:
            env[n] = ev.ev(defaults[n], {}, None, f.module)
        else:
            raise UnknownIdiom('%s: the Host header depends on the parameter `%s`, which has no default' % (f.qual, n))
    return env


def _host_value(p, driver: Func, scheme, port):
    """(function holding the sink, sink statement, Host header value) for one cell of scheme x port, by evaluating the
    backward slice of the sink in the driver (or in the one module-level helper the driver calls for its effect)."""
    what = 'scheme=%r port=%r' % (scheme, port)
    given = {'scheme': scheme, 'port': port, 'host': _R20_HOST}
    ev = ConcreteEval(p)
    sinks = _host_sinks(p, driver)
    if len(sinks) == 1:
        stmt, val = sinks[0]
        stmts, free = _backward_slice(driver, stmt, [val])
        env = _r20_env(p, ev, driver, free, given)
        _r20_run(ev, driver, stmts, env, what)
        try:
            return driver, stmt, ev.ev(val, env, driver)
        except CRaise as ex:
            raise UnknownIdiom('%s: `%s` raises %s for %s' % (driver.qual, short(val, 40), ex.cls, what))
    if len(sinks) > 1:
        raise UnknownIdiom('%s: several stores of the Host header' % driver.qual)
    # one level of helpers called for their effect
    parent = enclosing_map(driver.node)
    found = []
    for c in walk_no_nested(driver.node):
        if isinstance(c, ast.Call) and isinstance(parent.get(id(c)), ast.Expr):
            t = p.resolve_callable(driver, c.func)
            if isinstance(t, Func) and t.cls is None and t.module is driver.module:
                hs = _host_sinks(p, t)
                if hs:
                    found.append((c, parent[id(c)], t, hs))
    if len(found) != 1 or len(found[0][3]) != 1:
        raise AnchorError('%s: the store of the Host header (HTTP_HOST / b"host") was not found in the driver or in one helper it calls' % driver.qual)
    call, call_stmt, helper, [(stmt, val)] = found[0]
    if any(isinstance(a, ast.Starred) for a in call.args) or any(k.arg is None for k in call.keywords):
        raise UnknownIdiom('%s: `%s` is called with star-arguments' % (driver.qual, helper.name))
    h_stmts, h_free = _backward_slice(helper, stmt, [val])
    hps = helper.params()
    binding = {hps[i]: a for i, a in enumerate(call.args) if i < len(hps)}
    binding.update({k.arg: k.value for k in call.keywords})
    wanted = [n for n in sorted(h_free) if n in hps]
    missing = [n for n in wanted if n not in binding and n not in _defaults(helper)]
    if missing:
        raise UnknownIdiom('%s: `%s` is not given its parameter `%s`' % (driver.qual, helper.name, missing[0]))
    arg_exprs = [binding[n] for n in wanted if n in binding]
    d_stmts, d_free = _backward_slice(driver, call_stmt, arg_exprs)
    env = _r20_env(p, ev, driver, d_free, given)
    _r20_run(ev, driver, d_stmts, env, what)
    h_given = {}
    try:
        for n in wanted:
            if n in binding:
                h_given[n] = ev.ev(binding[n], env, driver)
    except CRaise as ex:
        raise UnknownIdiom('%s: an argument of `%s` raises %s for %s' % (driver.qual, helper.name, ex.cls, what))
    h_env = _r20_env(p, ev, helper, h_free, h_given)
    _r20_run(ev, helper, h_stmts, h_env, what)
    try:
        return helper, stmt, ev.ev(val, h_env, helper)
    except CRaise as ex:
        raise UnknownIdiom('%s: `%s` raises %s for %s' % (helper.qual, short(val, 40), ex.cls, what))


def r20_host_port_elision(run):
    """Both test drivers build the Host header a real client would send: `host` alone when the port is the default port
    OF THE REQUEST'S SCHEME (80 for http, 443 for https; also when no port is given), `host:port` otherwise (RFC 9110,
    7.2).  Decided by evaluating the statements that compute the header value -- the backward slice of the store of
    HTTP_HOST / b'host' in create_environ / create_scope (through the one helper it calls) -- over the abstract domain
    scheme in {http, https} x port in {not given, 80, 443, other} x type of the port argument in {int, numeric str} (the
    drivers document both spellings); both drivers must produce the required table, hence agree with each other: whatever
    is compared with the default-port constants has been normalised to the constants' type first.
    Witness: simulate_get(protocol='https', port=80): a client sends `Host: example.org:80`; a driver that drops the port
    makes req.port / netloc / uri / forwarded_host report the scheme default, and the WSGI and ASGI twins see different requests."""
    p = run.project
    wq, aq = DRIVER_PAIRS[0]
    for q in (wq, aq):
        driver = p.func(q)
        run.use(driver)
        for scheme in _R20_SCHEMES:
            for port in _R20_PORTS:
                holder, stmt, got = _host_value(p, driver, scheme, port)
                run.use(holder)
                if isinstance(got, bytes):
                    got = got.decode('latin-1')
                eff = _R20_DEFAULT_PORT[scheme] if port is None else int(port)
                kept = '%s:%d' % (_R20_HOST, eff)
                if got == _R20_HOST:
                    have = 'elided'
                elif got == kept or (port is not None and got == '%s:%s' % (_R20_HOST, port)):
                    have = 'kept'               # (possibly in the caller's spelling of the number)
                else:
                    raise UnknownIdiom('%s: the Host header for scheme=%r port=%r evaluates to %r (neither the host nor host:port)'
                                       % (holder.qual, scheme, port, got))
                want = 'elided' if eff == _R20_DEFAULT_PORT[scheme] else 'kept'
                cell = 'scheme=%s, port=%s' % (scheme, 'not given' if port is None else repr(port))
                run.check(have == want,
                          '%s: the simulated Host header has the port %s for %s (the port is dropped exactly when it is the default port of the scheme)'
                          % (driver.name, want, cell), holder, 'Host header [%s]: port %s' % (cell, have), where=holder.loc(stmt),
                          runtime_witness='simulate_get(protocol=%r, port=%r): the simulated request carries `Host: %s` where a client sends `Host: %s`; '
                                          'req.port / netloc / uri / forwarded_host differ from the real request and from the other stack\'s simulation'
                                          % (scheme, port, got, _R20_HOST if want == 'elided' else kept))


# ---------------------------------------------------------------------------
# R21: the one-shot ASGI conductor serves the request between lifespan startup and shutdown
# ---------------------------------------------------------------------------

_STARTUP_DONE = 'lifespan.startup.complete'
_SHUTDOWN_DONE = 'lifespan.shutdown.complete'


def _funcs_mentioning(p, module, text: str) -> Set[str]:
    return {g.qual for g in module.functions.values()
            if any(isinstance(x, ast.Constant) and x.value == text for x in walk_no_nested(g.node))}


def _with_nested(f: Func) -> List[Func]:
    out = [f]
    for g in f.nested.values():
        out.extend(_with_nested(g))
    return out


def _scope_kind(p, fn: Func, e) -> Optional[str]:
    """'lifespan' | 'http' for the scope expression handed to the app (a dict display, or a local bound once to one in
    this function or an enclosing one); None when it cannot be told."""
    if isinstance(e, ast.Name):
        g: Optional[Func] = fn
        while g is not None:
            vals = assignments(g).get(e.id)
            if vals:
                if len(vals) == 1 and vals[0] is not None:
                    return _scope_kind(p, g, vals[0])
                return None
            if e.id in g.params():
                return None
            g = g.parent
        return None
    if isinstance(e, ast.Dict):
        for k, v in zip(e.keys, e.values):
            if k is not None and p.fold(fn.module, k, None, fn) == 'type':
                t = p.fold(fn.module, v, None, fn)
                if t is UNKNOWN:
                    return None
                return 'lifespan' if t == 'lifespan' else 'http'
        return None
    if isinstance(e, ast.Call):
        t = p.resolve_callable(fn, e.func)
        if isinstance(t, Func) and t.qual == DRIVER_PAIRS[0][1]:
            return 'http'               # helpers.create_scope(...): the simulated HTTP request
    return None


def _app_runs(p, fn: Func, app_names):
    """[(call, 'lifespan' | 'http')]: calls `app(scope, receive, send)` in fn (not in nested functions)."""
    out = []
    for c in walk_no_nested(fn.node):
        if not (isinstance(c, ast.Call) and len(c.args) == 3 and not c.keywords):
            continue
        if not ((isinstance(c.func, ast.Name) and c.func.id in app_names) or (isinstance(c.func, ast.Attribute) and unparse(c.func) == 'self.app')):
            continue
        kind = _scope_kind(p, fn, c.args[0])
        if kind is None:
            raise UnknownIdiom('%s: cannot tell which scope `%s` runs the app with' % (fn.qual, short(c, 60)))
        out.append((c, kind))
    return out


def _await_nodes(p, fn: Func, cfg, pred) -> Set[int]:
    """CFG nodes that await something `pred(awaited expression)` accepts"""
    out = set()
    for n in cfg.live_nodes():
        for x in n.walk():
            if isinstance(x, ast.Await) and pred(x.value):
                out.add(n.id)
    return out


def r21_lifespan_order(run):
    """A spec-faithful ASGI server dispatches HTTP only between `lifespan.startup.complete` and the start of shutdown.  In
    every function of the one-shot ASGI driver that runs the app for the lifespan scope, (a) each statement that runs the
    app for the HTTP scope (creates its task / awaits it) is dominated by the `await` of the helper that waits for
    lifespan.startup.complete, and (b) the await of the helper that waits for lifespan.shutdown.complete -- and the
    notification that lets shutdown begin -- is dominated by the await of the request's task.  ASGIConductor.__aenter__
    (which serves the conductor's later requests) returns only after the startup wait.
    Witness: a process_startup hook that awaits once before publishing state: simulate_get() runs the responder while
    startup is parked -- 503 'not loaded' under the test client, 200 under a real server and on the WSGI twin."""
    p = run.project
    outer = p.func(DRIVER_PAIRS[1][1])
    if any(d.endswith('overload') for d in outer.decorators):
        raise UnknownIdiom('%s: an @overload stub was indexed instead of the implementation' % outer.qual)
    if 'app' not in outer.params():
        raise AnchorError('%s has no `app` parameter' % outer.qual)
    mod = outer.module
    startup_waiters = _funcs_mentioning(p, mod, _STARTUP_DONE)
    shutdown_waiters = _funcs_mentioning(p, mod, _SHUTDOWN_DONE)
    if not startup_waiters or not shutdown_waiters:
        raise AnchorError('%s: no helper waits for %s / %s' % (mod.name, _STARTUP_DONE, _SHUTDOWN_DONE))

    def awaited_callee(fn, e, quals):
        if isinstance(e, ast.Call):
            t = p.resolve_callable(fn, e.func)
            return isinstance(t, Func) and t.qual in quals
        return False

    n_lifespan = 0
    for fn in _with_nested(outer):
        runs = _app_runs(p, fn, {'app'})
        if not any(k == 'lifespan' for _c, k in runs):
            continue
        n_lifespan += 1
        cfg = cfg_of(fn, p)
        run.use_cfg(cfg)
        # HTTP runs on the same executions as the lifespan run (a branch that returns before the lifespan scope is ever
        # started -- the context-manager conductor owns the lifespan there -- is a different execution)
        life_nodes = [n.id for n in cfg.live_nodes() if any(x is c for c, k in runs if k == 'lifespan' for x in n.walk())]
        after_life = flow.reachable(cfg, life_nodes)
        http = []
        for c, k in runs:
            if k != 'http':
                continue
            nodes = [n.id for n in cfg.live_nodes() if any(x is c for x in n.walk())]
            if any(i in after_life for i in nodes) or any(j in flow.reachable(cfg, nodes) for j in life_nodes):
                http.append(c)
        if not http:
            raise AnchorError('%s runs the lifespan scope but never the HTTP scope (anchor moved?)' % fn.qual)
        started = _await_nodes(p, fn, cfg, lambda e: awaited_callee(fn, e, startup_waiters))
        if not started:
            raise AnchorError('%s: no await of the startup wait (%s)' % (fn.qual, ', '.join(sorted(q.rsplit('.', 1)[-1] for q in startup_waiters))))
        for c in http:
            nodes = [n.id for n in cfg.live_nodes() if any(x is c for x in n.walk())]
            if not nodes:
                continue                # dead code
            path = flow.find_path(cfg, [cfg.entry], nodes, avoid_nodes=started)
            run.check(path is None, 'the app is run for the HTTP scope only after the await of lifespan startup completion (dominance)', fn, c,
                      where=fn.loc(c), witness=flow.describe_path(cfg, path) if path else None,
                      runtime_witness='an app whose process_startup hook awaits once: simulate_get() dispatches the request while startup is parked; '
                                      'the responder sees the pre-startup state (events: startup-begin, request, startup-end)')
        # (b) shutdown only after the request's task has been awaited
        tasks: Set[str] = set()
        grew = True
        while grew:                     # request_coro = app(http_scope, ...); request_task = create_task(request_coro)
            grew = False
            for n, vals in assignments(fn).items():
                if n not in tasks and any(v is not None and any(any(x is c for c in http) or (isinstance(x, ast.Name) and x.id in tasks)
                                                                 for x in ast.walk(v)) for v in vals):
                    tasks.add(n)
                    grew = True
        finished = _await_nodes(p, fn, cfg, lambda e: (isinstance(e, ast.Name) and e.id in tasks) or any(e is c for c in http))
        if not finished:
            raise UnknownIdiom('%s: no await of the HTTP task / app call found' % fn.qual)
        conds = {n for n, vals in assignments(fn.parent or fn).items() if any(v is not None and isinstance(v, ast.Call) and
                 (p.resolve_expr(mod, v.func, fn) or '') == 'asyncio.Condition' for v in vals)} | \
                {n for n, vals in assignments(fn).items() if any(v is not None and isinstance(v, ast.Call) and
                 (p.resolve_expr(mod, v.func, fn) or '') == 'asyncio.Condition' for v in vals)}
        closing = {}
        for nid in _await_nodes(p, fn, cfg, lambda e: awaited_callee(fn, e, shutdown_waiters)):
            closing[nid] = 'the wait for lifespan shutdown completion'
        for n in cfg.live_nodes():
            for x in n.walk():
                if isinstance(x, ast.Call) and isinstance(x.func, ast.Attribute) and x.func.attr in ('notify', 'notify_all') \
                        and isinstance(x.func.value, ast.Name) and x.func.value.id in conds:
                    closing[n.id] = 'the notification that lets lifespan shutdown begin'
        if not closing:
            raise AnchorError('%s: neither the shutdown wait nor the shutdown notification was found' % fn.qual)
        for nid, what in sorted(closing.items()):
            path = flow.find_path(cfg, [cfg.entry], [nid], avoid_nodes=finished)
            run.check(path is None, '%s comes only after the await of the HTTP request\'s task (dominance)' % what, fn, cfg.node(nid).ast,
                      where=fn.loc(cfg.node(nid).ast), witness=flow.describe_path(cfg, path) if path else None,
                      runtime_witness='a responder that awaits: process_shutdown runs (and tears state down) while the request is still in flight')
    if n_lifespan == 0:
        raise AnchorError('%s: no function of the one-shot driver runs the app for the lifespan scope' % outer.qual)
    # the context-manager conductor: requests are simulated after __aenter__ has returned
    enter = p.func('falcon.testing.client.ASGIConductor.__aenter__')
    runs = _app_runs(p, enter, set())
    if not any(k == 'lifespan' for _c, k in runs):
        raise AnchorError('%s does not run the app for the lifespan scope' % enter.qual)
    cfg = cfg_of(enter, p)
    run.use_cfg(cfg)
    started = _await_nodes(p, enter, cfg, lambda e: awaited_callee(enter, e, startup_waiters))
    path = flow.find_path(cfg, [cfg.entry], [cfg.exit], avoid_nodes=started, edge_filter=flow.no_exc) if started else [cfg.entry]
    run.check(path is None, 'ASGIConductor.__aenter__ returns only after the await of lifespan startup completion', enter,
              'return without awaiting the startup wait' if started else 'no await of the startup wait', where=enter.loc(),
              witness=flow.describe_path(cfg, path) if path and started else None,
              runtime_witness='async with ASGIConductor(app) as c: await c.simulate_get(...) reaches the responder before process_startup has finished')


# ---------------------------------------------------------------------------
# R22 file-like resp.stream: both stacks read block after block until an EMPTY read
# ---------------------------------------------------------------------------

BLOCK_SIZE_ATTR = '_STREAM_BLOCK_SIZE'
WSGI_STREAM_ITER = 'falcon.app_helpers.CloseableStreamIterator'
ASGI_APP_MODULE = 'falcon.asgi.app'
WSGI_APP_MODULE = 'falcon.app'


class _NotAboutData(Exception):
    """the expression is not a function of the data returned by the read"""


class _CellInfeasible(Exception):
    """evaluating the expression raises for this cell (len(None)): the path is not taken"""


_DATA = object()


def _read_cell_eval(p, f: Func, e, dname: str, size_texts: Set[str], n: int, cell, derived=None, env=None):
    """Value of `e` when the latest `read(n)` returned `cell`: None, or bytes of length 0 / 1 / n-1 / n
    (representatives of: end of stream, short read, full block).  `derived`: local name -> the one expression it is
    bound to after the read (`short = len(data) < n`); `env`: text of a `self.<flag>` -> its abstract value."""
    E = lambda x: _read_cell_eval(p, f, x, dname, size_texts, n, cell, derived, env)  # noqa: E731

    def truth(v):
        if v is _DATA:
            return cell is not None and cell > 0
        return bool(v)

    if isinstance(e, ast.Constant):
        return e.value
    if isinstance(e, ast.Name) and e.id == dname:
        return _DATA
    if isinstance(e, ast.NamedExpr) and e.target.id == dname:
        return _DATA
    if derived and isinstance(e, ast.Name) and e.id in derived:
        return _read_cell_eval(p, f, derived[e.id], dname, size_texts, n, cell, {k: v for k, v in derived.items() if k != e.id}, env)
    if derived and isinstance(e, ast.NamedExpr) and e.target.id in derived and derived[e.target.id] is e.value:
        return E(e.value)
    if env and isinstance(e, ast.Attribute) and unparse(e) in env:
        return env[unparse(e)]
    if isinstance(e, ast.Await):
        return E(e.value)
    if unparse(e) in size_texts:
        return n
    if isinstance(e, ast.Call) and isinstance(e.func, ast.Name) and e.func.id == 'len' and len(e.args) == 1 and not e.keywords \
            and e.func.id not in local_names(f):
        v = E(e.args[0])
        if v is _DATA:
            if cell is None:
                raise _CellInfeasible()
            return cell
        if isinstance(v, (bytes, str)):
            return len(v)
        raise _NotAboutData()
    if isinstance(e, ast.UnaryOp) and isinstance(e.op, ast.Not):
        return not truth(E(e.operand))
    if isinstance(e, ast.Call) and isinstance(e.func, ast.Name) and e.func.id == 'bool' and len(e.args) == 1 and not e.keywords \
            and e.func.id not in local_names(f):
        return truth(E(e.args[0]))
    if isinstance(e, ast.BoolOp):
        # Python's value semantics: the first operand that decides, else the last (`data or b''` is the data or b'')
        v = None
        for x in e.values:
            v = E(x)
            if truth(v) != isinstance(e.op, ast.And):
                return v
        return v
    if isinstance(e, ast.Compare):
        left = E(e.left)
        for op, c in zip(e.ops, e.comparators):
            right = E(c)
            if left is _DATA or right is _DATA:
                other = right if left is _DATA else left
                if other is _DATA:
                    raise _NotAboutData()
                if other is None and isinstance(op, (ast.Is, ast.IsNot, ast.Eq, ast.NotEq)):
                    r = cell is None
                elif isinstance(other, (bytes, str)) and len(other) == 0 and isinstance(op, (ast.Eq, ast.NotEq)):
                    r = cell == 0
                else:
                    raise _NotAboutData()
                if isinstance(op, (ast.IsNot, ast.NotEq)):
                    r = not r
            elif (left is None or isinstance(left, bool)) and (right is None or isinstance(right, bool)) \
                    and isinstance(op, (ast.Is, ast.IsNot, ast.Eq, ast.NotEq)):
                # a flag compared with a constant (`flag is True`, `flag == False`, `flag is None`)
                r = (left is right) == isinstance(op, (ast.Is, ast.Eq))
            elif isinstance(left, int) and isinstance(right, int) and not isinstance(left, bool) and not isinstance(right, bool) \
                    and type(op) in _CMPOPS and not isinstance(op, (ast.In, ast.NotIn, ast.Is, ast.IsNot)):
                r = {'==': left == right, '!=': left != right, '<': left < right, '<=': left <= right, '>': left > right,
                     '>=': left >= right}[_CMPOPS[type(op)]]
            else:
                raise _NotAboutData()
            if not r:
                return False
            left = right
        return True
    if isinstance(e, (ast.Name, ast.Attribute)):
        v = p.fold(f.module, e, f.cls, f)
        if isinstance(v, int) and not isinstance(v, bool):
            return v
    raise _NotAboutData()


def _stream_read_sites(p, f: Func):
    """(statement-level binding name, read call, enclosing loop or None) of every `<x>.read(<size>)` in f whose size
    derives from the block size (mentions _STREAM_BLOCK_SIZE, or - in the WSGI iterator - the stored constructor argument)."""
    parent = enclosing_map(f.node)
    out = []
    asg = assignments(f)

    def is_read(fn):
        if isinstance(fn, ast.Attribute):
            return fn.attr == 'read'
        # a local bound once to the bound method (`read = stream.read` hoisted out of the loop)
        if isinstance(fn, ast.Name) and fn.id not in f.params():
            vals = asg.get(fn.id, [])
            return len(vals) == 1 and isinstance(vals[0], ast.Attribute) and vals[0].attr == 'read'
        return False

    for c in walk_no_nested(f.node):
        if not (isinstance(c, ast.Call) and is_read(c.func) and len(c.args) == 1 and not c.keywords):
            continue
        cur, holder = parent.get(id(c)), c
        while isinstance(cur, ast.Await):
            cur, holder = parent.get(id(cur)), cur
        dname = None
        if isinstance(cur, ast.Assign) and cur.value is holder and len(cur.targets) == 1 and isinstance(cur.targets[0], ast.Name):
            dname = cur.targets[0].id
        elif isinstance(cur, ast.AnnAssign) and cur.value is holder and isinstance(cur.target, ast.Name):
            dname = cur.target.id
        elif isinstance(cur, ast.NamedExpr) and cur.value is holder:
            dname = cur.target.id
        loop = cur
        while loop is not None and loop is not f.node and not isinstance(loop, (ast.While, ast.For, ast.AsyncFor)):
            loop = parent.get(id(loop))
        out.append((dname, c, loop if isinstance(loop, (ast.While, ast.For, ast.AsyncFor)) else None))
    return out


def _read_until_empty(run, p, f: Func, dname, call, loop, side: str):
    """Judge one read site: no way out of the read loop is open after a NON-EMPTY read."""
    if dname is None:
        raise UnknownIdiom('%s: the result of `%s` is not bound to a local' % (f.qual, short(call, 60)))
    # a loop steered by a pure control flag (`more = True; while more: ... if data == b'': more = False`): on the
    # flag-sensitive graph the copy of the loop test that is left is dominated by the test that cleared the flag
    flaggy = set()
    if isinstance(loop, ast.While):
        for x in walk_self(loop.test):
            if isinstance(x, ast.Name):
                vals = assignments(f).get(x.id, [])
                if vals and all(isinstance(v, ast.Constant) and isinstance(v.value, bool) for v in vals):
                    flaggy.add(x.id)
    cfg = cfg_of(f, p, refined=bool(flaggy))
    flags = set(getattr(cfg, 'flag_refined', None) or ()) & flaggy
    run.use_cfg(cfg)
    scope = loop if loop is not None else f.node
    inside = {id(x) for x in ast.walk(scope)}
    binds = [x for x in walk_no_nested(scope) if isinstance(x, ast.Name) and x.id == dname and isinstance(x.ctx, (ast.Store, ast.Del))]
    if len(binds) != 1:
        raise UnknownIdiom('%s: `%s` (the data read from the stream) is bound %d times in the read loop' % (f.qual, dname, len(binds)))
    size_texts = {unparse(call.args[0])}
    nv = p.fold(f.module, call.args[0], f.cls, f)
    n = nv if isinstance(nv, int) and not isinstance(nv, bool) and nv >= 4 else 8192
    # a local bound unconditionally, once, in the read scope to an expression (`short = len(data) < n` ... `if short: break`)
    # stands for that expression; other bindings of it are falsy constants outside the scope (`short = False` before the loop)
    derived = {}
    for st in scope.body:
        if isinstance(st, ast.Assign) and len(st.targets) == 1 and isinstance(st.targets[0], ast.Name):
            nm, val = st.targets[0].id, st.value
        elif isinstance(st, ast.AnnAssign) and st.value is not None and isinstance(st.target, ast.Name):
            nm, val = st.target.id, st.value
        else:
            continue
        if nm == dname or nm in f.params() or nm in flaggy or isinstance(val, ast.Constant):
            continue
        others = [v for v in assignments(f).get(nm, []) if v is not val]
        if all(v is not None and isinstance(v, ast.Constant) and not v.value and id(v) not in inside for v in others):
            derived[nm] = val
    # the iterator's own state: `self.<flag>` written in __next__ and tested on a later call
    flag_attrs = set()
    if loop is None and f.cls is not None:
        flag_attrs = {y.attr for y in walk_no_nested(f.node) if isinstance(y, ast.Attribute) and isinstance(y.ctx, (ast.Store, ast.Del))
                      and isinstance(y.value, ast.Name) and y.value.id == 'self'}

    def flags_in(t):
        return {unparse(y) for y in walk_self(t) if isinstance(y, ast.Attribute) and isinstance(y.ctx, ast.Load)
                and isinstance(y.value, ast.Name) and y.value.id == 'self' and y.attr in flag_attrs}

    def about_data(t):
        return any(isinstance(y, ast.Name) and (y.id == dname or y.id in derived) for y in walk_self(t))

    # ways out of the loop (WSGI iterator: ways to end the iteration)
    exits = []
    parent = enclosing_map(f.node)

    def own_loop(x):
        cur = parent.get(id(x))
        while cur is not None and not isinstance(cur, (ast.While, ast.For, ast.AsyncFor)):
            cur = parent.get(id(cur))
        return cur

    if loop is not None:
        for x in walk_no_nested(loop):
            if (isinstance(x, ast.Break) and own_loop(x) is loop) or isinstance(x, ast.Return):
                for nid in ([i for i in cfg.nodes_for(x) if not cfg.node(i).copy] or cfg.nodes_for(x))[:(None if flags else 1)]:
                    exits.append((x, None, nid))
        if isinstance(loop, ast.While):
            if not (isinstance(loop.test, ast.Constant) and loop.test.value):
                if flags:
                    for h in cfg.nodes_for(loop):
                        if cfg.node(h).kind == 'test' and cfg.node(h).ast is loop.test and flow.edges_out(cfg, h, 'F'):
                            exits.append((loop, [(t, tr) for t, tr in branch_facts(cfg, h) if id(t) in inside] + [(loop.test, False)], h))
                else:
                    exits.append((loop, [(loop.test, False)], None))
        else:
            raise UnknownIdiom('%s: `%s` inside a for loop' % (f.qual, short(call, 60)))
    else:
        if f.name != '__next__':
            raise UnknownIdiom('%s: `%s` is neither inside a loop nor in an iterator __next__' % (f.qual, short(call, 60)))
        for x in walk_no_nested(f.node):
            if isinstance(x, ast.Raise) and x.exc is not None and short(x.exc.func if isinstance(x.exc, ast.Call) else x.exc) in ('StopIteration', 'StopAsyncIteration'):
                for nid in ([i for i in cfg.nodes_for(x) if not cfg.node(i).copy] or cfg.nodes_for(x))[:1]:
                    exits.append((x, None, nid))
    if not exits:
        raise UnknownIdiom('%s: no way out of the loop around `%s` was found' % (f.qual, short(call, 60)))
    what = ('%s: the loop over `%s` ends only on an EMPTY read (a short read is not the end of a pipe / socket / decompressor stream)'
            % (side, short(call, 60)))
    def flag_test(t):
        names = {y.id for y in walk_self(t) if isinstance(y, ast.Name)}
        return bool(names) and names <= flags

    for x, facts, nid in exits:
        if facts is None:
            facts = [(t, tr) for t, tr in branch_facts(cfg, nid) if id(t) in inside]
        # (a test of nothing but control flags is decided by the graph copy the exit sits in)
        facts = [(t, tr) for t, tr in facts if not flag_test(t)]
        if not facts:
            raise UnknownIdiom('%s: `%s` leaves the read loop unconditionally' % (f.qual, short(x, 40)))
        dropped = None
        if any(flags_in(t) for t, _tr in facts):
            if not any(about_data(t) for t, _tr in facts):
                # tested before / apart from this call's read: the flag carries what an EARLIER call saw
                _carried_flag_exit(run, p, f, cfg, x, facts, flags_in, about_data, dname, call, size_texts, n, derived, what)
                continue
            # an exit after the read that is also under a flag test: the data facts alone may prove it closed for a
            # non-empty read (dropping a conjunct only opens the exit further); if they do not, the shape is unread
            dropped = [(t, tr) for t, tr in facts if flags_in(t)]
            facts = [(t, tr) for t, tr in facts if not flags_in(t)]
            if not facts:
                raise UnknownIdiom('%s: `%s` is under `%s`, which mixes the iterator state and the data read' % (f.qual, short(x, 40), short(dropped[0][0], 60)))
        guards = [(t, tr) for t, tr in facts if not isinstance(t, ast.Constant)]
        cons = ('while ' + unparse(x.test)) if isinstance(x, ast.While) else '%s [%s]' % (
            short(x, 40), ' and '.join(('' if tr else 'not ') + unparse(t) for t, tr in guards))
        open_for, unread = [], None
        for cell in (1, n - 1, n):
            refuted = False
            unknown = None
            for t, tr in facts:
                try:
                    val = _read_cell_eval(p, f, t, dname, size_texts, n, cell, derived)
                    if (cell > 0 if val is _DATA else bool(val)) != tr:
                        refuted = True
                        break
                except _CellInfeasible:
                    refuted = True
                    break
                except _NotAboutData:
                    unknown = t
            if refuted:
                continue
            if unknown is not None:
                unread = unknown
            else:
                open_for.append(cell)
        if open_for and dropped:
            raise UnknownIdiom('%s: `%s` is left open for a non-empty read by the conditions on the data; whether `%s` closes it is not read'
                               % (f.qual, short(x, 40), short(dropped[0][0], 60)))
        if open_for:
            names = {1: 'a 1-byte read', n - 1: 'a read one byte short of the block size', n: 'a full block'}
            run.fail(what + ': `%s` is reached after %s' % (short(x, 40) if not isinstance(x, ast.While) else cons,
                                                             ', '.join(names[c] for c in open_for)),
                     f, cons, where=f.loc(x),
                     witness=['exit guarded by: ' + ' and '.join(('' if tr else 'not ') + '(%s)' % unparse(t) for t, tr in facts),
                              'block size %s = %d; cells of len(%s): 0, 1, %d, %d' % (unparse(call.args[0]), n, dname, n - 1, n)],
                     runtime_witness='resp.stream reads from a pipe: pieces of 60, 3500, 8192 ... bytes; this stack stops after the first '
                                     'short piece and the rest of the body is dropped, the sibling stack delivers all of it')
        elif unread is not None:
            raise UnknownIdiom('%s: the read loop is left under `%s`, which the rule cannot read as a condition on the data read' % (f.qual, short(unread, 60)))
        else:
            run.ok(what, f.loc(x), cons)


def _carried_flag_exit(run, p, f: Func, cfg, x, facts, flags_in, about_data, dname, call, size_texts, n, derived, what):
    """An end of the iteration guarded by `self.<flag>` alone (no condition on this call's data): the flag is state a
    PREVIOUS __next__ call left behind.  Its possible values are read from the stores of the class: the initial one
    (__init__ / class body, a constant), constants written by other methods (close(): not a function of the data) and
    the stores of __next__ after the read, each evaluated - value and dominating branch facts - over the cells
    len(data) in {1, n-1, n}.  Violation: a value stored after a NON-EMPTY read opens the exit on the next call
    (`self._drained = len(data) < n` / `if len(data) < n: self._drained = True`); `self._drained = not data` holds."""
    texts = set()
    for t, _tr in facts:
        texts |= flags_in(t)
    if len(texts) != 1:
        raise UnknownIdiom('%s: `%s` is under several state flags (%s)' % (f.qual, short(x, 40), ', '.join(sorted(texts))))
    text = next(iter(texts))
    attr = text.split('.', 1)[1]
    parent = enclosing_map(f.node)

    def stores(g):
        out = []
        for y in walk_no_nested(g.node):
            if isinstance(y, ast.Attribute) and y.attr == attr and isinstance(y.ctx, (ast.Store, ast.Del)) \
                    and isinstance(y.value, ast.Name) and y.value.id == 'self':
                st = parent.get(id(y)) if g is f else enclosing_map(g.node).get(id(y))
                if isinstance(st, ast.Assign) and any(tg is y for tg in st.targets):
                    out.append((st, st.value))
                elif isinstance(st, ast.AnnAssign) and st.target is y and st.value is not None:
                    out.append((st, st.value))
                else:
                    raise UnknownIdiom('%s: `%s` is written by something other than a plain assignment' % (g.qual, text))
        return out

    # initial value and writers outside __next__
    init = []
    for name, g in f.cls.methods.items():
        if g is f:
            continue
        for st, v in stores(g):
            if not isinstance(v, ast.Constant):
                raise UnknownIdiom('%s: `%s = %s` outside __next__ is not a constant' % (g.qual, text, short(v, 40)))
            if name == '__init__':
                init.append(v.value)
    if not init and attr in f.cls.attrs and isinstance(f.cls.attrs[attr], ast.Constant):
        init.append(f.cls.attrs[attr].value)
    if len(set(map(repr, init))) != 1:
        raise UnknownIdiom('%s: the initial value of `%s` is not one constant set by __init__ / the class body' % (f.qual, text))
    init = init[0]

    def holds(fs, cell, env):
        """all of the facts hold (True) / one is refuted (False) for the cell; _NotAboutData propagates"""
        for t, tr in fs:
            try:
                val = _read_cell_eval(p, f, t, dname, size_texts, n, cell, derived, env)
            except _CellInfeasible:
                return False
            if ((cell is not None and cell > 0) if val is _DATA else bool(val)) != tr:
                return False
        return True

    try:
        if holds(facts, None, {text: init}):
            raise UnknownIdiom('%s: `%s` is open for the initial `%s = %r`: the iteration ends before the first read' % (f.qual, short(x, 40), text, init))
    except _NotAboutData:
        raise UnknownIdiom('%s: the iteration is ended under `%s`, which the rule cannot read as a test of the state flag' % (f.qual, short(facts[0][0], 60)))
    # the stores of __next__
    stmt = parent.get(id(call))
    while stmt is not None and not isinstance(stmt, ast.stmt):
        stmt = parent.get(id(stmt))
    read_nodes = cfg.nodes_for(stmt) if stmt is not None else []
    if not read_nodes:
        raise UnknownIdiom('%s: the statement of `%s` has no node on the graph' % (f.qual, short(call, 60)))
    producers = []
    for st, v in stores(f):
        nids = [i for i in cfg.nodes_for(st) if not cfg.node(i).copy] or cfg.nodes_for(st)
        if not nids:
            continue            # unreachable store
        sfacts = [(t, tr) for t, tr in branch_facts(cfg, nids[0]) if not isinstance(t, ast.Constant)]
        # a store that itself sits under a test of the flag is read only for the flag's initial state
        own = [(t, tr) for t, tr in sfacts if flags_in(t)]
        sfacts = [(t, tr) for t, tr in sfacts if not flags_in(t)]
        try:
            if own and not holds(own, None, {text: init}):
                raise UnknownIdiom('%s: `%s` is stored only once `%s` already differs from its initial value' % (f.qual, short(st, 50), text))
        except _NotAboutData:
            raise UnknownIdiom('%s: `%s` is stored under `%s`, which is not read' % (f.qual, short(st, 50), short(own[0][0], 60)))
        if not flow.dominated_by_nodes(cfg, nids[0], read_nodes):
            if isinstance(v, ast.Constant) and not any(about_data(t) for t, _tr in sfacts):
                try:
                    if not holds(facts, None, {text: v.value}):
                        continue        # a reset before the read that does not end anything
                except _NotAboutData:
                    pass
            raise UnknownIdiom('%s: `%s` is not preceded by the read on every path' % (f.qual, short(st, 50)))
        producers.append((st, v, sfacts))
    opened = []
    for cell in (1, n - 1, n):
        try:
            active = [(st, v) for st, v, sfacts in producers if holds(sfacts, cell, None)]
        except _NotAboutData:
            raise UnknownIdiom('%s: a store of `%s` is under a condition that is not read as a condition on the data' % (f.qual, text))
        if len(active) > 1:
            raise UnknownIdiom('%s: `%s` is stored more than once after one read (%s); which store is the last is not read'
                               % (f.qual, text, ' / '.join(short(st, 40) for st, _v in active)))
        for st, v in active:
            try:
                val = _read_cell_eval(p, f, v, dname, size_texts, n, cell, derived)
            except (_NotAboutData, _CellInfeasible):
                raise UnknownIdiom('%s: the value of `%s` is not read as a function of the data' % (f.qual, short(st, 50)))
            if val is _DATA:
                val = True      # (non-empty bytes; only their truth is used)
            try:
                if holds(facts, None, {text: val}):
                    opened.append((cell, st, val))
            except _NotAboutData:
                raise UnknownIdiom('%s: the iteration is ended under `%s`, which is not read for `%s = %r`' % (f.qual, short(facts[0][0], 60), text, val))
    guard = ' and '.join(('' if tr else 'not ') + unparse(t) for t, tr in facts)
    cons = '%s [%s]' % (short(x, 40), guard)
    if opened:
        names = {1: 'a 1-byte read', n - 1: 'a read one byte short of the block size', n: 'a full block'}
        st0 = opened[0][1]
        pf = [sf for s_, _v, sf in producers if s_ is st0][0]
        run.fail(what + ': `%s` is reached on the call after %s, through `%s`' % (short(x, 40), ', '.join(names[c] for c, _s, _v in opened), short(st0, 50)),
                 f, cons + ' <- ' + short(st0, 50), where=f.loc(x),
                 witness=['exit guarded by: ' + guard,
                          '`%s` at %s under: %s' % (short(st0, 50), f.loc(st0), ' and '.join(('' if tr else 'not ') + '(%s)' % unparse(t) for t, tr in pf) or 'nothing'),
                          'block size %s = %d; cells of len(%s): 0, 1, %d, %d; the store leaves %s' % (
                              unparse(call.args[0]), n, dname, n - 1, n, ', '.join('%s = %r after len %d' % (text, v, c) for c, _s, v in opened))],
                 runtime_witness='resp.stream reads from a pipe: pieces of 60, 3500, 8192 ... bytes; this stack stops after the first '
                                 'short piece and the rest of the body is dropped, the sibling stack delivers all of it')
    else:
        run.ok(what, f.loc(x), cons)


def r22_stream_read_until_empty(run):
    """resp.stream that is file-like is delivered by both stacks block after block: ASGI `App.__call__` awaits
    `stream.read(_STREAM_BLOCK_SIZE)` in a loop, WSGI wraps the stream in CloseableStreamIterator whose __next__ reads
    a block.  `read(n)` promises AT MOST n bytes; only an empty result is the end of the stream.  Clause (same on both
    stacks): every way out of the read loop (break / return / loop test; `raise StopIteration` in the iterator) is closed
    for a non-empty read.  Decided by evaluating the branch facts that dominate each exit over the cells
    len(data) in {1, n-1, n} (abstract evaluation; a guard that is not a function of the data is an unknown idiom).
    W: a pipe-backed resp.stream yields 60 bytes, then 3500, ...: ASGI stops after the 60 bytes, WSGI sends the whole body."""
    p = run.project
    # ASGI: read sites in falcon.asgi.app whose size is the block size
    asgi_sites = []
    for f in p.funcs.values():
        if f.module.name != ASGI_APP_MODULE:
            continue
        for dname, call, loop in _stream_read_sites(p, f):
            size = call.args[0]
            if isinstance(size, ast.Name):
                # the block size held in a local bound once (`block_size = self._STREAM_BLOCK_SIZE`)
                vals = assignments(f).get(size.id, [])
                if len(vals) == 1 and vals[0] is not None and size.id not in f.params():
                    size = vals[0]
            if BLOCK_SIZE_ATTR in unparse(size):
                asgi_sites.append((f, dname, call, loop))
    if not asgi_sites:
        raise AnchorError('%s: no `<stream>.read(...%s...)` call found' % (ASGI_APP_MODULE, BLOCK_SIZE_ATTR))
    for f, dname, call, loop in asgi_sites:
        _read_until_empty(run, p, f, dname, call, loop, 'ASGI')
    # WSGI: the iterator the app wraps the stream in, built with the block size
    it = p.cls(WSGI_STREAM_ITER)
    built = False
    for f in p.funcs.values():
        if f.module.name != WSGI_APP_MODULE:
            continue
        for c in walk_no_nested(f.node):
            if isinstance(c, ast.Call) and p.callee(f, c) is it:        # (the block size may travel through a local)
                built = True
                run.use(f)
    if not built:
        raise AnchorError('%s: no construction of %s found' % (WSGI_APP_MODULE, WSGI_STREAM_ITER))
    nxt = p.func(WSGI_STREAM_ITER + '.__next__')
    sites = [(d, c, l) for d, c, l in _stream_read_sites(p, nxt) if attr_chain(c.func.value) is not None and attr_chain(c.func.value)[0] == 'self']
    if not sites:
        raise AnchorError('%s: no `self.<stream>.read(<block size>)` call' % nxt.qual)
    for dname, call, loop in sites:
        _read_until_empty(run, p, nxt, dname, call, loop, 'WSGI')


def check(run):
    run.assume('whole-behaviour equality is not decided; the parity obligations between the hand-duplicated siblings are')
    run.assume('R4 (dispatch parity) = C03 R1 + C04 R3 + C05 R3/R4: decided by those checks, not re-evaluated here')
    run.assume('server-mandated environ/scope keys (frozen table in sa/rules/c09_helpers.py) are present; E5 assumptions as in C09')
    run.assume('the deprecated WSGI-only option auto_parse_form_urlencoded is off (outside the quantifier of C06; its pre-try escape is C04 R6 / F10)')
    run.assume('R2(d) fall-back constants: decided only for header accessors on the input classes missing / blank / non-blank '
               '(None vs constant vs header value); other fall-back idioms are too varied for an exact structural match')
    run.rule('R1', r1_override_completeness, 'no public ASGI request member reaches a base body that needs WSGI-only state', floor=60)
    run.rule('R2', r2_accessor_parity, 'accessor / constructor parity: escape sets, consulted headers, raised errors', floor=40)
    run.rule('R3', r3_constructor_parity, 'constructor parity: trailing slash, query-string options, content type', floor=10)
    from . import c03 as _c03

    run.rule('R4', _c03.r1_sibling_equal, 'dispatch parity: the two __call__s are event-language-equal over the middleware alphabet (shared with C03 R1)', floor=1)
    from . import c05 as _c05
    from . import c13 as _c13

    run.rule('R10', _c05.r4_bodiless_typeless, 'both apps use the same bodiless/typeless status sets and branches (shared with C05 R4)', floor=26)
    run.rule('R11', _c13.r1_siblings, 'the sync and async multipart parsers are statement-for-statement siblings (shared with C13 R1)', floor=3)
    from . import c09 as _c09

    run.rule('R12', _c09.r2_memo, 'memo discipline of the request accessors: a per-request value cached by one accessor is what its siblings read (shared with C09 R2)', floor=50)
    run.rule('R9', r9_driver_path_decoding, 'both test drivers percent-decode the path identically (no plus-to-space)', floor=3)
    run.rule('R13', r13_ctor_value_pipelines, 'constructor pipelines raw input -> self.path / self.query_string: same (guard, transformation) pairs on both stacks', floor=4)
    run.rule('R8', r8_ctor_definite_assignment, 'per-request attributes bound on every constructor path or immutable class default', floor=2)
    run.rule('R7', r7_render_sibling_stores, 'render siblings perform the same stores on the response', floor=2)
    run.rule('R6', r6_access_route_tail, 'access_route: peer appended under the same condition in both stacks', floor=1)
    run.rule('R5', r5_driver_tables, 'test drivers provide what the request classes read; header-name mangling agrees', floor=12)
    run.rule('R14', r14_header_mapping_entries, 'req.headers / headers_lower: one entry per request header whatever its value (sample evaluation), both stacks', floor=8)
    run.rule('R15', r15_one_shot_scope_fields, "scope['client'] / scope['server'] (possibly forward-only iterables) are consumed at one memoised site per request", floor=2)
    run.assume('the Cython twin of falcon.util.misc._encode_items_to_latin1 (not built here) behaves like the pure-Python fallback')
    run.rule('R16', r16_header_emitters, 'header emitters: each stored (name, value) is delivered unchanged by both stacks apart from the tabled ASGI byte encoding', floor=6)
    run.rule('R17', r17_ctor_attribute_parity, 'the two request constructors bind the same public per-request attributes; declared attributes are bound', floor=15)
    run.rule('R18', r18_driver_defaults, 'WSGI / ASGI test drivers: shared parameters have the same defaults', floor=20)
    run.rule('R19', r19_driver_conversions, 'create_environ / create_scope: shared parameters go through the same conversion / validation functions', floor=8)
    run.rule('R20', r20_host_port_elision, 'create_environ / create_scope: the Host header carries the port exactly when it is not the default port of the scheme (scheme x port cells, port given as int or numeric str)', floor=36)
    run.rule('R21', r21_lifespan_order, 'one-shot ASGI driver: the HTTP scope is served after the await of lifespan startup and before shutdown is released (dominance)', floor=4)
    run.rule('R22', r22_stream_read_until_empty, 'file-like resp.stream: both stacks read block after block and stop only on an empty read', floor=2)
    from . import c12 as _c12
    # (the outcome of asking the request for its media - value or error, first and later calls - is part of what the
    #  application sees: s10-c06-2, ASGI get_media stopped remembering non-HTTP errors)
    from .c06_drivers import r24_generated_header_precedence
    run.rule('R24', r24_generated_header_precedence, 'create_environ / create_scope: a header passed in by the caller takes precedence over the generated '
             'host / content-length / cookie / user-agent header in both drivers (finding F26)', floor=7)
    run.rule('R23', _c12._safe(_c12.r1_parse_once), 'media access: WSGI and ASGI get_media are event-language-equal (parse once, cache value and error, exhaust, default) '
             '(shared with C12 R1)', floor=50)
