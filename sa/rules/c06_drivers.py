"""C06 R24 -- precedence between the headers a test driver GENERATES and the headers the caller passes in.

Added after finding F26: `create_scope()` appended its generated host / content-length / cookie / user-agent headers
after the caller's, `create_environ()` lets the caller's header replace the generated one; the same
`simulate_get(headers={'Host': ...})` was a different request on the two stacks.

Clause (the same policy in both drivers, so that one simulated request is one request):
  * WSGI: `_add_headers_to_environ(env, headers)` runs after every generated store of `env['HTTP_HOST']`,
    `env['CONTENT_LENGTH']`, `env['HTTP_COOKIE']` in `create_environ` (the caller's singleton header replaces it);
  * ASGI: in the function that binds `scope['headers']`, every generated header -- an append of a pair whose name is a
    bytes constant, outside the loop over the caller's headers -- is guarded by a test that the caller did not supply
    that name: `b'<name>' not in S` with S collecting the caller's lower-cased names inside the loop, or `not flag`
    with the flag assigned inside the loop from a comparison of the caller's name with b'<name>'.
A generated header without such a guard is the violation; a guard the rule cannot read is UnknownIdiom (exit 2).
"""

from __future__ import annotations

import ast
from typing import Dict, List, Optional, Set

from ..model import AnchorError, UnknownIdiom, unparse, walk_no_nested

ENVIRON = 'falcon.testing.helpers.create_environ'
ENV_HELPER = '_add_headers_to_environ'
SCOPE_BUILDER = 'falcon.testing.helpers._add_headers_to_scope'
GENERATED_ENV_KEYS = ('HTTP_HOST', 'CONTENT_LENGTH', 'HTTP_COOKIE')
GENERATED_ASGI = (b'user-agent', b'content-length', b'host', b'cookie')


def _top_index(body: List[ast.stmt], pred) -> List[int]:
    return [i for i, st in enumerate(body) if any(pred(x) for x in ast.walk(st))]


def _is_env_store(x, key: str) -> bool:
    return (isinstance(x, ast.Subscript) and isinstance(x.ctx, ast.Store) and isinstance(x.slice, ast.Constant)
            and x.slice.value == key)


def _pair_name(arg) -> Optional[bytes]:
    """b'name' of an appended header pair `[b'name', v]` / `(b'name', v)` / `iter([b'name', v])`."""
    if isinstance(arg, ast.Call) and isinstance(arg.func, ast.Name) and arg.func.id in ('iter', 'tuple', 'list') and arg.args:
        arg = arg.args[0]
    if isinstance(arg, (ast.List, ast.Tuple)) and len(arg.elts) == 2 and isinstance(arg.elts[0], ast.Constant) \
            and isinstance(arg.elts[0].value, bytes):
        return arg.elts[0].value
    return None


def _caller_loop(fn_node) -> ast.For:
    loops = [x for x in walk_no_nested(fn_node) if isinstance(x, ast.For)
             and any(isinstance(c, ast.Call) and isinstance(c.func, ast.Attribute) and c.func.attr == 'lower' for c in ast.walk(x))]
    if len(loops) != 1:
        raise AnchorError('%s: expected one loop over the caller\'s headers, found %d' % (SCOPE_BUILDER, len(loops)))
    return loops[0]


def _loop_facts(loop: ast.For):
    """(names of sets that receive the caller's header names, {flag name: bytes constant it is compared with})."""
    sets: Set[str] = set()
    flags: Dict[str, bytes] = {}
    for x in ast.walk(loop):
        if isinstance(x, ast.Call) and isinstance(x.func, ast.Attribute) and x.func.attr == 'add' \
                and isinstance(x.func.value, ast.Name) and len(x.args) == 1 and isinstance(x.args[0], ast.Name):
            sets.add(x.func.value.id)
        if isinstance(x, ast.Assign) and len(x.targets) == 1 and isinstance(x.targets[0], ast.Name):
            for c in ast.walk(x.value):
                if isinstance(c, ast.Compare) and len(c.ops) == 1 and isinstance(c.ops[0], ast.Eq):
                    for side in (c.left, c.comparators[0]):
                        if isinstance(side, ast.Constant) and isinstance(side.value, bytes):
                            flags[x.targets[0].id] = side.value
    return sets, flags


def _guards(test, name: bytes, sets: Set[str], flags: Dict[str, bytes]) -> Optional[bool]:
    """True: the test implies 'the caller did not supply `name`'; False: it does not mention the caller's names at all;
    None: it mentions them in a way the rule cannot read."""
    if isinstance(test, ast.BoolOp) and isinstance(test.op, ast.And):
        res = [_guards(v, name, sets, flags) for v in test.values]
        if any(r is True for r in res):
            return True
        return None if any(r is None for r in res) else False
    if isinstance(test, ast.Compare) and len(test.ops) == 1 and isinstance(test.comparators[0], ast.Name) \
            and test.comparators[0].id in sets:
        if isinstance(test.ops[0], ast.NotIn) and isinstance(test.left, ast.Constant) and isinstance(test.left.value, bytes):
            return test.left.value == name      # a test about another header does not guard this one
        return None
    if isinstance(test, ast.UnaryOp) and isinstance(test.op, ast.Not) and isinstance(test.operand, ast.Name) \
            and test.operand.id in flags:
        return flags[test.operand.id] == name       # a flag recording another header does not guard this one
    mentioned = {n.id for n in ast.walk(test) if isinstance(n, ast.Name)}
    if mentioned & (sets | set(flags)):
        return None
    return False


def r24_generated_header_precedence(run):
    """A header passed in by the caller takes precedence over the one the driver would generate for it, in BOTH drivers.
    Witness: simulate_get(app, '/', headers={'Host': 'other.example:8080'}) -- WSGI sees req.host == 'other.example',
    an ASGI driver that appends its own host header afterwards sees the generated one (F26)."""
    p = run.project
    env = p.func(ENVIRON)
    run.use(env)
    body = env.node.body
    calls = _top_index(body, lambda x: isinstance(x, ast.Call) and isinstance(x.func, ast.Name) and x.func.id == ENV_HELPER)
    if len(calls) != 1:
        raise AnchorError('%s: expected one top-level call of %s, found %d' % (ENVIRON, ENV_HELPER, len(calls)))
    for key in GENERATED_ENV_KEYS:
        idx = _top_index(body, lambda x, key=key: _is_env_store(x, key))
        if not idx:
            raise AnchorError('%s: generated store of env[%r] not found' % (ENVIRON, key))
        run.check(max(idx) < calls[0], 'create_environ: the caller\'s headers are applied after the generated env[%r]' % key,
                  env, body[calls[0]], where=env.loc(body[calls[0]]),
                  runtime_witness='a caller-supplied header is overwritten by the generated %s on WSGI only' % key)
    sb = p.func(SCOPE_BUILDER)
    run.use(sb)
    if not any(isinstance(x, ast.Subscript) and isinstance(x.ctx, ast.Store) and isinstance(x.slice, ast.Constant)
               and x.slice.value == 'headers' for x in walk_no_nested(sb.node)):
        raise AnchorError('%s no longer binds scope[\'headers\']' % SCOPE_BUILDER)
    loop = _caller_loop(sb.node)
    sets, flags = _loop_facts(loop)
    in_loop = {id(x) for x in ast.walk(loop)}
    parent: Dict[int, ast.AST] = {}
    for x in ast.walk(sb.node):
        for c in ast.iter_child_nodes(x):
            parent[id(c)] = x
    seen: Set[bytes] = set()
    for x in walk_no_nested(sb.node):
        if not (isinstance(x, ast.Call) and isinstance(x.func, ast.Attribute) and x.func.attr in ('append', 'insert')
                and x.args and id(x) not in in_loop):
            continue
        name = _pair_name(x.args[-1])
        if name is None:
            continue
        seen.add(name)
        verdict: Optional[bool] = False
        node: ast.AST = x
        while id(node) in parent and verdict is not True:
            up = parent[id(node)]
            if isinstance(up, ast.If) and any(node is s for s in up.body):
                g = _guards(up.test, name, sets, flags)
                if g is True:
                    verdict = True
                elif g is None:
                    verdict = None
            node = up
        if verdict is None:
            raise UnknownIdiom('%s: the guard of the generated %r header mentions the caller\'s names in a form the rule cannot read: %s'
                               % (sb.qual, name, unparse(x)))
        run.check(verdict is True, 'create_scope: the generated %r header is added only when the caller did not pass one' % name.decode(),
                  sb, x, where=sb.loc(x),
                  runtime_witness='simulate_get(headers={%r: ...}): WSGI lets the caller\'s value win, ASGI delivers the generated one after it '
                                  '(last one wins in the request\'s header table): the two stacks see different requests' % name.decode())
    missing = [n for n in GENERATED_ASGI if n not in seen]
    if missing:
        raise AnchorError('%s: generated header(s) %r not found' % (SCOPE_BUILDER, missing))
