"""C07 - request body streams (DESIGN.md section 3, C07).

WSGI (falcon.stream.BoundedStream): R1 every raw-stream use is a size-clamped
read, R2 sign/partition analysis of the clamp (looking through helper methods /
properties of the class; a size the budget can serve is handed on unchanged),
R3 accounting against the `io` contract of the method that is called, and --
for every method of the class -- loops that consume body data end on what the
reads returned or on the live budget, never on a tally of requested sizes;
exhaust() returns only after an empty read or with the budget used up; the
budget is written only by the constructor and by judged writes: the accounted
deduction of a read, or a store that forces it to 0 on a path whose facts prove
that a read asked for something other than 0 bytes came back empty (read(0)
returns b'' too).  ASGI (falcon.asgi.stream.BoundedStream):
R4 per-path conservation in the receive loops -- including the position: per
event it advances by exactly min(len(body), budget) where data is discarded
(exhaust) and never by more than the budget admits anywhere (`_pos +
max(budget, 0)` does not grow, so tell() <= Content-Length; the post-loop
normalisation of the budget is no substitute, the position is never
normalised) -- and every normal return of
exhaust() / readall() / the body iterator leaves the receive buffer empty and
the budget at 0 (exhaust advancing the position by the buffered bytes it
drops); an event whose body is left unread is provably a disconnect or lacks the 'body' key; R5 termination -- the
guard of every receive loop has its boundary exactly at budget > 0 (it runs only while the budget is positive AND stops
for lack of budget only at 0), a constant index into a chunk list the method built is guarded by a proof that the list
is long enough (a disconnect before any data leaves it empty) --, R6 lazy wrapping on both request classes; the budget
that stands in for a missing / an invalid Content-Length is exactly 0.
"""

from __future__ import annotations

import ast

from ..cfg import cfg_of
from ..flow import describe_path, find_path as flow_find_path, no_exc as _no_exc
from ..linexpr import Env, Lin, NONE, Seq, fresh, local_edges, loop_heads, paths_from, run_steps, segments
from ..model import AnchorError, Func, UnknownIdiom, dotted, short, unparse
from .c07_helpers import (ASGI, BUDGET, WSGI, DelEnv, Inliner, Verdicts, dealiased_view, asgi_cls, asgi_func, asgi_constructor, asgi_drained, asgi_indexing, asgi_initial_position, asgi_keys, asgi_loops,
                          asgi_positions, lazy_wrapping, require_attrs, run_steps_inl)
from .common import ancestors, enclosing_map, implied, walk_self

# `io` documentation: what a raw-stream method returns for a size argument n
CONTRACT = {
    'read': 'exact',        # n bytes unless EOF comes first
    'readline': 'at-most',  # one line, at most n bytes
    'read1': 'at-most',
    'readlines': 'hint',    # list of lines; n is only a hint, the total may exceed it
}
NON_READING = {'close', 'closed', 'fileno', 'isatty', 'readable', 'seekable', 'writable', 'tell', 'name', 'mode'}


# ---------------------------------------------------------------------------
# the WSGI wrapper: anchors
# ---------------------------------------------------------------------------

class Wsgi:
    def __init__(self, run):
        p = run.project
        self.p = p
        # (locals that are a bound method -- `read = self.read`, `append = lines.append` -- are written out again)
        self.cls = dealiased_view(p, p.cls(WSGI), inner_methods=CONTRACT)
        init = p.func(WSGI + '.__init__')
        require_attrs(p, WSGI, [BUDGET])
        params = [a for a in init.params() if a != 'self']
        if not params:
            raise AnchorError('%s.__init__ takes no stream' % WSGI)
        raws = [t.attr for s in walk_self(init.node) if isinstance(s, ast.Assign) and isinstance(s.value, ast.Name)
                and s.value.id == params[0] for t in s.targets if isinstance(t, ast.Attribute) and dotted(t) == 'self.' + t.attr]
        if len(raws) != 1:
            raise AnchorError('%s.__init__: attribute holding the raw stream not found' % WSGI)
        self.raw = 'self.' + raws[0]
        # gates: methods that call one of their parameters
        self.gates = {}
        for name, f in self.cls.methods.items():
            ps = [a for a in f.params() if a != 'self']
            called = [c.func.id for c in walk_self(f.node) if isinstance(c, ast.Call) and isinstance(c.func, ast.Name) and c.func.id in ps]
            if called:
                if len(set(called)) != 1:
                    raise UnknownIdiom('%s calls several of its parameters' % f.qual)
                self.gates[f.qual] = (f, called[0], ps.index(called[0]))
        self.methods = [f for f in self.cls.methods.values() if f.name != '__init__']
        self._reading = None
        self._budget_props = None
        self._ctor_only = None
        self._unrelated = None
        # pure helpers (no raw read, directly or through other methods) may be looked through
        self.inliner = Inliner(p, self.cls, lambda h: h.name != '__init__' and h.qual not in self.gates and h.qual not in self.reading_methods())

    def _callee(self, f, c):
        if isinstance(c.func, ast.Name) and c.func.id == 'next' and len(c.args) == 1 and dotted(c.args[0]) == 'self':
            return self.cls.methods.get('__next__')
        return self.own(self.p.callee(f, c))

    def own(self, t):
        """The class's own (de-aliased) reading of a method the project resolved."""
        if isinstance(t, Func) and t.cls is not None and t.cls.qual == self.cls.qual and t.parent is None:
            return self.cls.methods.get(t.name, t)
        return t

    def reading_methods(self):
        """Qualnames of the methods that read from the raw stream, directly or through other methods of the class."""
        if self._reading is None:
            reads = {f.qual for f in self.cls.methods.values() if self.read_sites(f)}
            changed = True
            while changed:
                changed = False
                for f in self.cls.methods.values():
                    if f.qual in reads:
                        continue
                    for c in walk_self(f.node):
                        if isinstance(c, ast.Call):
                            t = self._callee(f, c)
                            if isinstance(t, Func) and t.qual in reads:
                                reads.add(f.qual)
                                changed = True
                                break
            self._reading = reads
        return self._reading

    def consuming(self, f, call) -> bool:
        """Does this call (inside method f) obtain body data: a raw / callback read or a gated read through the class?"""
        gate = self.gates.get(f.qual)
        if gate and isinstance(call.func, ast.Name) and call.func.id == gate[1]:
            return True
        if self.raw_method(call.func) in CONTRACT:
            return True
        if self.sentinel_iter(call) is not None:
            return True             # iter(self.readline, b''): every item is the result of one read
        t = self._callee(f, call)
        return isinstance(t, Func) and t.qual in self.reading_methods()

    def reading_ref(self, e):
        """The reading method of the class that `self.<name>` names (a bound-method reference), else None."""
        if isinstance(e, ast.Attribute) and dotted(e.value) == 'self':
            t = self.cls.methods.get(e.attr)
            if t is not None and not t.is_property() and t.qual in self.reading_methods():
                return t
        return None

    def sentinel_iter(self, call):
        """For `iter(self.<reading method>, <sentinel>)` the method, else None."""
        if isinstance(call, ast.Call) and isinstance(call.func, ast.Name) and call.func.id == 'iter' and len(call.args) == 2 and not call.keywords:
            return self.reading_ref(call.args[0])
        return None

    def budget_props(self):
        """Names of the properties of the class that are computed from the budget (eof, ...)."""
        if self._budget_props is None:
            out = set()
            changed = True
            while changed:
                changed = False
                for name, f in self.cls.methods.items():
                    if name in out or not f.is_property():
                        continue
                    if any(dotted(x) == BUDGET or (isinstance(x, ast.Attribute) and dotted(x.value) == 'self' and x.attr in out) for x in walk_self(f.node)):
                        out.add(name)
                        changed = True
            self._budget_props = out
        return self._budget_props

    def mentions_budget(self, e) -> bool:
        props = self.budget_props()
        return any(isinstance(x, ast.Attribute) and (dotted(x) == BUDGET or (dotted(x.value) == 'self' and x.attr in props)) for x in walk_self(e))

    def gate_of_call(self, func, call):
        tgt = self.p.callee(func, call)
        return self.gates.get(tgt.qual) if isinstance(tgt, Func) else None

    def callback_arg(self, gate, call):
        _f, cb, idx = gate
        for k in call.keywords:
            if k.arg == cb:
                return k.value
        return call.args[idx] if idx < len(call.args) else None

    def raw_method(self, e):
        """'read' for the expression self.<raw>.read, else None."""
        if isinstance(e, ast.Attribute) and dotted(e.value) == self.raw:
            return e.attr
        return None

    def read_sites(self, f):
        """(call node, kind, method|None): calls in f that read from the raw stream."""
        out = []
        gate = self.gates.get(f.qual)
        for c in walk_self(f.node):
            if not isinstance(c, ast.Call):
                continue
            if gate and isinstance(c.func, ast.Name) and c.func.id == gate[1]:
                out.append((c, 'callback', None))
            elif self.raw_method(c.func) in CONTRACT:
                out.append((c, 'direct', c.func.attr))
        return out

    def ctor_only_attrs(self):
        """Plain attributes of the wrapper that no method but the constructor stores: fixed at construction time, they
        cannot follow the budget as it goes down."""
        if self._ctor_only is None:
            later = set()
            for f in self.methods:
                for x in walk_self(f.node):
                    if isinstance(x, ast.Attribute) and isinstance(x.ctx, (ast.Store, ast.Del)) and dotted(x.value) == 'self':
                        later.add(x.attr)
                    if isinstance(x, ast.Constant) and isinstance(x.value, str) and x.value.isidentifier():
                        later.add(x.value)          # setattr(self, 'name', ...) and the like: cannot tell
            init = self.cls.methods['__init__']
            stored = {x.attr for x in walk_self(init.node) if isinstance(x, ast.Attribute) and isinstance(x.ctx, ast.Store) and dotted(x.value) == 'self'}
            self._ctor_only = {a for a in stored if a not in later and a not in self.cls.methods and 'self.' + a not in (self.raw, BUDGET)}
        return self._ctor_only

    def budget_unrelated(self, f, call):
        """For a direct sized call `self.<raw>.<read method>(n)` in method f: the text of `n` when it is computed without
        any reference to the live budget -- from constants and construction-time attributes of the wrapper only (through
        the locals of the method) -- and no test of the method relates it to the budget either.  None when `n` is (or may
        be) related to the budget, is the constant 0, or involves a parameter / a call / another member of the class
        (those are R2's business: partition analysis of the clamp)."""
        arg = call.args[0]
        if isinstance(arg, ast.Constant) and arg.value == 0 and not isinstance(arg.value, bool):
            return None                 # read(0) obtains nothing
        c = Consumption(self, f)
        defs = c.defs([f.node])
        params = set(f.params()) - {'self'}

        def value_names(e):
            pure = {id(x.func) for x in walk_self(e) if isinstance(x, ast.Call) and isinstance(x.func, ast.Name) and x.func.id in _PURE}
            return {x.id for x in walk_self(e) if isinstance(x, ast.Name) and id(x) not in pure}

        names, attrs, work, exprs = set(), set(), list(value_names(arg)), [arg]
        while work:
            n = work.pop()
            if n in names or n == 'self':
                continue
            names.add(n)
            if n in params:
                return None             # a caller-supplied size: the cells of R2 decide
            for r in defs.get(n, []):
                exprs.append(r)
                work.extend(value_names(r))
        for e in exprs:
            if self.mentions_budget(e):
                return None
            for x in walk_self(e):
                if isinstance(x, ast.Call) and not (isinstance(x.func, ast.Name) and x.func.id in _PURE):
                    return None
                if isinstance(x, (ast.Await, ast.Yield, ast.YieldFrom, ast.Lambda, ast.Starred, ast.NamedExpr)):
                    return None
                if isinstance(x, ast.Attribute):
                    if dotted(x.value) == 'self' and x.attr in self.ctor_only_attrs():
                        attrs.add(x.attr)
                    elif not (isinstance(x.value, ast.Attribute) and dotted(x.value.value) == 'self' and x.value.attr in self.ctor_only_attrs()):
                        return None     # another member of the class / of something else: cannot tell
        if not all(n in defs or n in ('True', 'False', 'None') for n in names):
            return None                 # a free (module-level) name: cannot tell
        # a test that looks at the size (or what it is computed from) together with the budget / a member of the class
        budgetish = c.closure(defs, lambda r: self.mentions_budget(r))
        if names & budgetish:
            return None
        tests = []
        for x in walk_self(f.node):
            if isinstance(x, (ast.If, ast.While, ast.IfExp, ast.Assert)):
                tests.append(x.test)
            elif isinstance(x, ast.comprehension):
                tests.extend(x.ifs)
            elif isinstance(x, (ast.Compare, ast.BoolOp)):
                tests.append(x)
        for t in tests:
            mine = (_names(t) & names) or any(isinstance(y, ast.Attribute) and dotted(y.value) == 'self' and y.attr in attrs for y in walk_self(t))
            if not mine:
                continue
            other = self.mentions_budget(t) or (_names(t) & budgetish) or any(
                isinstance(y, ast.Attribute) and dotted(y.value) == 'self' and y.attr not in attrs and 'self.' + y.attr != self.raw for y in walk_self(t))
            if other:
                return None
        return unparse(arg)

    def unrelated_sites(self):
        """id(call) -> (method, call, size text) for the direct sized raw calls R1 reports as unrelated to the budget."""
        if self._unrelated is None:
            self._unrelated = {}
            for f in self.methods:
                for (c, kind, _m) in self.read_sites(f):
                    if kind == 'direct' and len(c.args) == 1 and not c.keywords:
                        txt = self.budget_unrelated(f, c)
                        if txt is not None:
                            self._unrelated[id(c)] = (f, c, txt)
        return self._unrelated


def r1_single_gate(run):
    w = Wsgi(run)
    n = 0
    for f in w.methods:
        parent = enclosing_map(f.node)
        for node in walk_self(f.node):
            if not (isinstance(node, ast.Attribute) and dotted(node) == w.raw and isinstance(node.ctx, ast.Load)):
                continue
            n += 1
            run.use(f)
            up = parent.get(id(node))
            up2 = parent.get(id(up)) if up is not None else None
            what = 'the raw stream is only read through a size-clamped, accounted call'
            if isinstance(up, ast.Attribute) and isinstance(up2, ast.Call):
                gate = w.gate_of_call(f, up2)
                if up2.func is not up and gate is not None and w.callback_arg(gate, up2) is up:
                    run.ok(what + ' (bound method handed to the clamping helper %s)' % gate[0].name, f.loc(up2), up2)
                    continue
                if up2.func is up and up.attr in CONTRACT and len(up2.args) == 1 and not up2.keywords:
                    loose = w.unrelated_sites().get(id(up2))
                    if loose is not None:
                        run.fail('a direct sized call on the raw stream asks for `%s`: a size computed without reference to the remaining budget (constants / '
                                 'construction-time attributes only) that no test of the method relates to the budget -- the call bypasses the clamp'
                                 % loose[2], f, up2,
                                 runtime_witness='Content-Length 13 over b"id,name\\n1,ann\\n..." (a pipelined request follows): after the first line '
                                                 'has been consumed this call still asks wsgi.input for up to `%s` bytes, more than what is left of the '
                                                 'declared body; it returns bytes beyond Content-Length and the budget goes negative' % loose[2])
                        continue
                    run.ok(what + ' (direct sized call, analysed by R2/R3)', f.loc(up2), up2)
                    continue
                if up2.func is up and up.attr in NON_READING:
                    run.ok('non-reading use of the raw stream', f.loc(up2), up2)
                    continue
            if isinstance(up, ast.Attribute) and up.attr in NON_READING and not isinstance(up2, ast.Call):
                run.ok('non-reading use of the raw stream', f.loc(up), up)
                continue
            cons = up2 if isinstance(up2, ast.Call) and isinstance(up, ast.Attribute) else (up if isinstance(up, (ast.Call, ast.Attribute)) else node)
            run.fail('unclamped, unaccounted use of the raw stream (not a sized read through the budget clamp)', f, cons,
                     runtime_witness='a body longer than Content-Length: this operation returns bytes beyond the declared length '
                                     'and the budget/eof do not change')
    if n == 0:
        raise AnchorError('%s: no use of %s found' % (WSGI, w.raw))


# ---------------------------------------------------------------------------
# R2 / R3: abstract execution of every function that reads from the raw stream
# ---------------------------------------------------------------------------

CELLS = [
    ('is None', lambda e, s, rem: e._set(e.is_none, s.lone(), True)),
    ('== -1', lambda e, s, rem: e.add_eq(s, -1)),
    ('< -1', lambda e, s, rem: e.add_le(s, -2)),
    ('== 0', lambda e, s, rem: e.add_eq(s, 0)),
    ('in (0, remaining]', lambda e, s, rem: e.add_le(1, s) and e.add_le(s, rem)),
    ('> remaining', lambda e, s, rem: e.add_le(rem + Lin.const(1), s)),
]


def _reader_funcs(w):
    out = []
    for f in sorted(w.methods, key=lambda f: f.qual):
        sites = w.read_sites(f)
        if sites:
            out.append((f, sites))
    if not out:
        raise AnchorError('%s: no method reads from the raw stream through a sized call' % WSGI)
    return out


def _size_param(w, f):
    gate = w.gates.get(f.qual)
    ps = [a for a in f.params() if a != 'self' and not (gate and a == gate[1])]
    if len(ps) > 1:
        raise UnknownIdiom('%s: more than one candidate size parameter %s' % (f.qual, ps))
    return ps[0] if ps else None


def _exec_reader(w, f, cfg, setup):
    """Run every entry->exit path of f; yields (env, reads) with reads = [(call, arg value, result atom)]."""
    gate = w.gates.get(f.qual)

    def on_call(env, call):
        looked = Inliner.value_of(env, call)
        if looked is not None:
            return looked           # a helper method of the class that was looked through (see Inliner)
        is_cb = gate and isinstance(call.func, ast.Name) and call.func.id == gate[1]
        if is_cb or w.raw_method(call.func) in CONTRACT:
            arg = env.eval(call.args[0]) if len(call.args) == 1 and not call.keywords else None
            res = fresh('result of ' + short(call, 40))
            env.ghost['reads'] = env.ghost.get('reads', ()) + ((call, arg, res),)
            return Lin.atom(res)
        if isinstance(call.func, ast.Attribute) and dotted(call.func.value) == 'self':
            env.havoc([BUDGET], 'after ' + short(call, 30))     # another method of the wrapper may move the budget
        return None

    sp = _size_param(w, f)
    heads = loop_heads(cfg)
    if heads and sp and any(isinstance(n, ast.Name) and n.id == sp and isinstance(n.ctx, ast.Store) for n in walk_self(f.node)):
        raise UnknownIdiom('%s: the size parameter is reassigned in a function with loops' % f.qual)
    for _start, steps, end in segments(cfg):
        env = DelEnv(on_call)
        rem = env.declare(BUDGET, 'nat')
        if not setup(env, rem):
            continue
        for e in run_steps_inl(env, cfg, steps, w.inliner):
            yield e, e.ghost.get('reads', ())


# cells in which the caller asked for a size the budget can serve: the raw stream must be asked for exactly that
EXACT = {'== 0', 'in (0, remaining]'}


def _judge_size(env, arg, rem0, s0, exact):
    """'ok' | 'unknown' | ('bad', why) for one size handed to the raw stream on one feasible path."""
    is_none = isinstance(arg, Lin) and arg.lone() is not None and env.is_none.get(arg.lone()) is True
    if arg is NONE or arg is None or is_none:
        return ('bad', 'outside [0, remaining budget]')
    if not isinstance(arg, Lin):
        return 'unknown'
    if not (env.prove_le(0, arg) and env.prove_le(arg, rem0)):
        return ('bad', 'outside [0, remaining budget]') if env.prove_lt(arg, 0) or env.prove_lt(rem0, arg) else 'unknown'
    if not exact or s0 is None or env.prove_eq(arg, s0):
        return 'ok'
    if env.prove_lt(s0, arg):
        return ('bad', 'more than the requested size (a sized read returns more than its size)')
    if env.prove_eq(arg, 0) and env.prove_le(1, s0):
        return ('bad', 'zero for a positive size within the budget (an empty result although data remain)')
    strict = env.fork()
    if strict.add_le(s0 + Lin.const(1), rem0) and strict.prove_lt(s0, arg):
        return ('bad', 'more than the requested size whenever more than that is left (a sized read returns more than its size)')
    return 'unknown'


def r2_clamp_domain(run):
    w = Wsgi(run)
    run.assume('C07 R2/R3: the budget %s is a non-negative integer on entry (established by R2+R3 inductively)' % BUDGET)
    pending = []
    loose = w.unrelated_sites()
    for f, sites in _reader_funcs(w):
        cfg = cfg_of(f, run.project)
        run.use_cfg(cfg)
        sp = _size_param(w, f)
        cells = CELLS if sp else [('(no size parameter)', lambda e, s, rem: True)]
        for cname, cset in cells:
            def setup(env, rem, cset=cset, cname=cname):
                if sp is None:
                    return True
                s = env.var(sp)
                if cname != 'is None':
                    env.is_none[s.lone()] = False
                return cset(env, s, rem)

            bad, unknown, n, deferred = {}, [], 0, 0
            for env, reads in _exec_reader(w, f, cfg, setup):
                rem0 = env.var(BUDGET)
                s0 = env.var(sp) if sp else None
                for (call, arg, _res) in reads:
                    n += 1
                    verdict = _judge_size(env, arg, rem0, s0, cname in EXACT)
                    if verdict == 'unknown' and id(call) in loose:
                        deferred += 1           # R1 reports this call: its size does not derive from the budget at all
                    elif verdict == 'unknown':
                        unknown.append('%s: cannot bound %r for %s %s' % (f.qual, arg, sp, cname))
                    elif verdict != 'ok':
                        bad.setdefault('%s [%s %s]' % (unparse(call), sp or 'size', cname), (call, arg, verdict[1]))
            where = f.loc()
            through = ''
            if w.inliner.used:
                through = ' (looking through %s)' % ', '.join(sorted(q.rsplit('.', 1)[1] for q in w.inliner.used))
                for q in w.inliner.used:
                    run.use(run.project.func(q))
            for cons, (call, arg, why) in sorted(bad.items()):
                run.fail('for %s %s the size handed to the raw stream%s is %s, %s' % (sp or 'size', cname, through, 'None' if cname == 'is None' else repr(arg), why),
                         f, cons, where=f.loc(call),
                         runtime_witness=('%s(%s) with %s %s on a body longer than Content-Length reads past the declared length' % (f.name, sp, sp, cname))
                         if why.startswith('outside') else
                         ('%s(%s) with %s %s while part of the body is still unread returns a different amount than was asked for (read(0) must return b"")'
                          % (f.name, sp, sp, cname)))
            if unknown and not bad:
                pending.append(unknown[0])
            elif not bad and not deferred:
                run.ok('for %s %s every size handed to the raw stream%s lies in [0, remaining budget]%s (%d read(s) on the feasible paths)'
                       % (sp or 'size', cname, through, ' and is exactly the requested size' if cname in EXACT else '', n), where, '%s [%s]' % (f.name, cname))
    if pending:
        raise UnknownIdiom('; '.join(pending[:3]))


def r3_accounting(run):
    w = Wsgi(run)
    p = run.project
    pending = []
    modes = {}
    v = Verdicts(run)
    forced = set()
    _budget_writes(run, w, v, forced)
    for f, sites in _reader_funcs(w):
        cfg = cfg_of(f, p)
        run.use_cfg(cfg)
        how = set()
        for env, reads in _exec_reader(w, f, cfg, lambda env, rem: True):
            if not reads:
                continue
            final = env.eval(_BUDGET_E)
            if f.qual in forced and isinstance(final, Lin) and final.is_const:
                continue            # ends in a forced store: judged by _budget_writes, not a deduction
            if len(reads) > 1:
                raise UnknownIdiom('%s: several raw reads on one path' % f.qual)
            call, arg, res = reads[0]
            d = env.var(BUDGET) - env.eval(ast.parse(BUDGET, mode='eval').body)
            if isinstance(arg, Lin) and env.same(d, arg):
                # (a request for 0 bytes obtains 0 bytes under every sized contract: nothing to deduct)
                how.add('result' if arg.is_const and arg.c == 0 else 'request')
            elif env.same(d, Lin.atom(('len', res))):
                how.add('result')
            elif env.same(d, 0):
                run.fail('the budget is not decremented on a path that reads from the raw stream', f, call,
                         runtime_witness='two consecutive reads together return more than Content-Length bytes')
                how.add('none')
            else:
                pending.append('%s: deducted amount %r is neither the requested size %r nor len(result)' % (f.qual, d, arg))
        modes[f.qual] = how
        if how and 'none' not in how and not pending:
            run.ok('every reading path deducts %s from the budget' % ' or '.join(sorted('the requested size' if h == 'request' else 'len(result)' for h in how)),
                   f.loc(), f.name)
    # each (caller, method) pair against the io contract
    for f in sorted(w.methods, key=lambda f: f.qual):
        for c in walk_self(f.node):
            if not isinstance(c, ast.Call):
                continue
            meth, via = None, None
            gate = w.gate_of_call(f, c)
            if gate is not None:
                cb = w.callback_arg(gate, c)
                meth, via = w.raw_method(cb), gate[0]
                if cb is None or meth is None:
                    if isinstance(cb, ast.Name) and f.qual in w.gates and cb.id == w.gates[f.qual][1]:
                        continue    # a gate forwarding its own callback
                    raise UnknownIdiom('%s: callback %s is not a method of the raw stream' % (f.qual, short(cb, 40) if cb is not None else '<missing>'))
            elif w.raw_method(c.func) in CONTRACT and f.qual not in w.gates:
                meth, via = c.func.attr, f
            if meth is None:
                continue
            if meth not in CONTRACT:
                raise UnknownIdiom('%s: no io contract tabled for raw method %s' % (f.qual, meth))
            how = modes.get(via.qual, set())
            contract = CONTRACT[meth]
            what = 'the amount deducted for %s(n) equals the bytes obtained' % meth
            if contract == 'hint':
                run.fail(what + ': n is only a hint for %s, the lines returned may total more than n' % meth, f, c,
                         runtime_witness='Content-Length 2 over b"abcdef\\nxyz": %s(...) returns b"abcdef\\n"' % f.name)
            elif 'request' in how and contract != 'exact':
                run.fail(what + ': %s may return fewer than n bytes, yet n is deducted (the tail of the body is lost, eof reported early)' % meth,
                         f, c, runtime_witness='body b"a\\nbcdef": %s() returns b"a\\n", a following read() returns b"" and eof is true' % f.name)
            elif how and how <= {'request', 'result'}:
                run.ok(what + ' (%s contract of io.%s, deduction by %s)' % (contract, meth, '/'.join(sorted(how))), f.loc(c), c)
    # decisions elsewhere in the class about how much has been consumed
    seen = set()
    _consumption_decisions(run, w, v, seen)
    _exhaust_exits(run, w, v, seen)
    _no_loss(run, w, v)
    if pending:
        raise UnknownIdiom('; '.join(pending[:3]))
    v.flush()


# ---------------------------------------------------------------------------
# R3 (continued): every decision about how much of the body has been consumed
# rests on the bytes obtained or on the shared budget (which R3 proves is
# decremented by the bytes obtained) -- never on the sizes that were asked for
# ---------------------------------------------------------------------------

_PURE = {'len', 'min', 'max', 'abs', 'int', 'bool'}
_MUTATORS = {'append', 'extend', 'insert', 'add', 'update', 'write', 'appendleft'}
_BUDGET_E = ast.parse(BUDGET, mode='eval').body


def _names(e):
    return {x.id for x in walk_self(e) if isinstance(x, ast.Name)}


def _target_names(t):
    if isinstance(t, ast.Name):
        return [t.id]
    if isinstance(t, (ast.Tuple, ast.List)):
        return [n for x in t.elts for n in _target_names(x)]
    if isinstance(t, ast.Starred):
        return _target_names(t.value)
    root = t
    while isinstance(root, (ast.Attribute, ast.Subscript)):
        root = root.value
    return [root.id] if isinstance(root, ast.Name) and root.id != 'self' else []


def _reasons(t, v):
    """Alternative sets of atomic tests: `t` has truth value `v` iff all atoms of one alternative have theirs."""
    if isinstance(t, ast.UnaryOp) and isinstance(t.op, ast.Not):
        return _reasons(t.operand, not v)
    if isinstance(t, ast.BoolOp):
        parts = [_reasons(x, v) for x in t.values]
        if isinstance(t.op, ast.And) == v:
            out = [[]]
            for alts in parts:
                out = [g + h for g in out for h in alts]
            return out
        return [g for alts in parts for g in alts]
    return [[t]]


def _atoms(t):
    return [a for g in _reasons(t, True) for a in g]


class Consumption:
    """Data dependence of one method's decisions on what its reads returned."""

    def __init__(self, w, f):
        self.w, self.f = w, f
        self.parent = enclosing_map(f.node)
        self.loops = [x for x in walk_self(f.node) if isinstance(x, (ast.While, ast.For, ast.AsyncFor))]

    def has_consuming(self, e):
        return any(isinstance(c, ast.Call) and self.w.consuming(self.f, c) for c in walk_self(e))

    def region(self, lp):
        return ([lp.test] if isinstance(lp, ast.While) else []) + list(lp.body)

    def defs(self, nodes):
        """name -> expressions its value (or content) is computed from, for the assignments inside `nodes`."""
        d = {}

        def add(names, value):
            for n in names:
                d.setdefault(n, []).append(value)

        for top in nodes:
            for x in walk_self(top):
                if isinstance(x, ast.Assign):
                    for t in x.targets:
                        add(_target_names(t), x.value)
                elif isinstance(x, ast.AugAssign):
                    add(_target_names(x.target), x.value)
                elif isinstance(x, ast.AnnAssign) and x.value is not None:
                    add(_target_names(x.target), x.value)
                elif isinstance(x, ast.NamedExpr):
                    add(_target_names(x.target), x.value)
                elif isinstance(x, (ast.For, ast.AsyncFor)):
                    add(_target_names(x.target), x.iter)
                elif isinstance(x, (ast.With, ast.AsyncWith)):
                    for it in x.items:
                        if it.optional_vars is not None:
                            add(_target_names(it.optional_vars), it.context_expr)
                elif isinstance(x, ast.Call) and isinstance(x.func, ast.Attribute) and x.func.attr in _MUTATORS and isinstance(x.func.value, ast.Name):
                    for a in x.args:
                        add([x.func.value.id], a)
        return d

    def closure(self, defs, seed):
        """Names whose definitions (transitively) satisfy `seed(expr)`."""
        out = set()
        changed = True
        while changed:
            changed = False
            for n, rhss in defs.items():
                if n not in out and any(seed(r) or (_names(r) & out) for r in rhss):
                    out.add(n)
                    changed = True
        return out

    def classify(self, atom, varying, rd, bd):
        """J: the test looks at what was obtained / at the live budget; V: it looks at a loop-varying local that does not;
        N: loop-invariant; U: not understood."""
        if self.has_consuming(atom) or self.w.mentions_budget(atom) or (_names(atom) & (rd | bd)):
            return 'J'
        for x in walk_self(atom):
            if isinstance(x, ast.Call) and not (isinstance(x.func, ast.Name) and x.func.id in _PURE):
                return 'U'
            if isinstance(x, ast.Attribute) and (dotted(x) or '').split('.')[0] == 'self':
                return 'U'
            if isinstance(x, (ast.Subscript, ast.Await, ast.Yield, ast.YieldFrom, ast.NamedExpr, ast.Lambda)):
                return 'U'
        return 'V' if _names(atom) & varying else 'N'

    def exits(self, lp):
        """(alternatives, construct text, node): the decisions that end loop `lp` normally (break / return / loop test)."""
        out = []
        if isinstance(lp, ast.While) and not (isinstance(lp.test, ast.Constant) and bool(lp.test.value)):
            out.append((_reasons(lp.test, False), 'while ' + unparse(lp.test), lp.test))
        for s in lp.body:
            for x in walk_self(s):
                if not isinstance(x, (ast.Break, ast.Return)):
                    continue
                alts, inner, child, cons = [[]], None, x, None
                for a in ancestors(x, self.parent):
                    if a is lp:
                        break
                    if isinstance(a, (ast.While, ast.For, ast.AsyncFor)) and isinstance(x, ast.Break):
                        alts = None
                        break
                    if isinstance(a, ast.If) and child is not a.test:
                        pol = any(child is b for b in a.body)
                        alts = [g + h for g in alts for h in _reasons(a.test, pol)]
                        if cons is None:
                            cons, inner = 'if ' + unparse(a.test), a.test
                    child = a
                if alts is None or cons is None:
                    continue            # break of an inner loop / unconditional exit
                out.append((alts, cons, inner))
        return out


def _consumption_decisions(run, w, v, seen):
    """Every loop of the class that consumes body data: each way of leaving it is decided by what the reads returned or by
    the live budget; a local countdown of the sizes asked for decides nothing about how much has been consumed."""
    what = 'a loop that consumes body data ends on what its reads returned or on the live budget, not on a tally of the sizes asked for'
    for f in sorted(w.methods, key=lambda f: f.qual):
        c = Consumption(w, f)
        for lp in c.loops:
            region = c.region(lp)
            over_reads = not isinstance(lp, ast.While) and c.has_consuming(lp.iter)     # for line in iter(self.readline, b'')
            if not any(c.has_consuming(x) for x in region) and not over_reads:
                continue
            run.use(f)
            defs = c.defs([lp] if over_reads else region)
            rd = c.closure(defs, c.has_consuming)
            bd = c.closure(defs, w.mentions_budget)
            alldefs = c.defs(f.node.body)
            # locals that tally sizes: computed from a snapshot of the budget or from what the reads are asked for
            asked = set()
            for x in region:
                for call in walk_self(x):
                    if isinstance(call, ast.Call) and w.consuming(f, call):
                        for a in list(call.args) + [k.value for k in call.keywords]:
                            asked |= _names(a)
            sizes = c.closure(alldefs, lambda r: w.mentions_budget(r) or bool(_names(r) & asked)) | asked
            varying = set(defs) & sizes         # (a loop-varying local that tallies nothing, e.g. a line count, decides nothing about consumption)
            if not isinstance(lp, ast.While):
                it, head = lp.iter, 'for %s in %s' % (unparse(lp.target), unparse(lp.iter))
                snap = c.closure(alldefs, w.mentions_budget)
                if c.has_consuming(it) or dotted(it) == 'self':
                    v.note(f, 'exit ' + head, what, True, head)
                elif isinstance(it, ast.Call) and isinstance(it.func, ast.Name) and it.func.id == 'range' and (w.mentions_budget(it) or (_names(it) & snap)):
                    if (f.qual, head) not in seen:
                        seen.add((f.qual, head))
                        v.note(f, 'exit ' + head, what, False, head,
                               'the number of reads is fixed from a snapshot of the budget before the first read: each read(n) is assumed to return n bytes',
                               rw='a wsgi.input that returns short reads: %s() returns with part of the declared body unread, eof stays False' % f.name)
                else:
                    v.unknown('%s: `%s` around a read of the body is not an understood way of bounding consumption' % (f.qual, head))
            for alts, cons, node in c.exits(lp):
                verdicts = []
                for g in alts:
                    kinds = [c.classify(a, varying, rd, bd) for a in g]
                    verdicts.append('ok' if 'J' in kinds else 'unknown' if 'U' in kinds else 'bad' if 'V' in kinds else 'neutral')
                if 'bad' in verdicts:
                    if (f.qual, cons) in seen:
                        continue
                    seen.add((f.qual, cons))
                    locs = sorted(n for g in alts for a in g for n in (_names(a) & varying) - rd - bd)
                    v.note(f, 'exit ' + cons, what, False, cons,
                           'the loop around a read of the body ends on `%s`, which is never updated from what a read returned nor from %s: '
                           'it tallies sizes that were asked for, not bytes obtained' % (', '.join(locs), BUDGET.split('.')[1]),
                           rw='a wsgi.input that returns short reads (read(n) may return fewer than n bytes): %s() returns with part of the '
                              'declared body unread, eof stays False and the next read hands out bytes that should be gone' % f.name)
                elif 'unknown' in verdicts:
                    v.unknown('%s: cannot tell what `%s` (ending a loop that reads the body) depends on' % (f.qual, cons))
                elif 'ok' in verdicts:
                    v.note(f, 'exit ' + cons, what, True, cons)


def _is_empty_const(x):
    return isinstance(x, ast.Constant) and isinstance(x.value, (bytes, str)) and len(x.value) == 0


class _EmptyCompare(ast.NodeTransformer):
    """`x == b''` / `x != b''`  ->  `len(x) == 0` / `len(x) != 0` (the evaluator models lengths, not byte strings)."""

    def visit_Compare(self, n):
        if len(n.ops) == 1 and isinstance(n.ops[0], (ast.Eq, ast.NotEq)):
            a, b = n.left, n.comparators[0]
            if _is_empty_const(a) and not _is_empty_const(b):
                a, b = b, a
            if _is_empty_const(b) and isinstance(a, (ast.Name, ast.Call, ast.NamedExpr)):
                return ast.copy_location(ast.Compare(ast.Call(ast.Name('len', ast.Load()), [a], []), [n.ops[0]], [ast.Constant(0)]), n)
        return n

    def visit_Lambda(self, n):
        return n


_norm_cache = {}


def _norm_test(t):
    """The test with comparisons against an empty constant turned into length tests (the original node when nothing changes,
    one stable copy otherwise -- sub-expressions are shared with the original, so call sites keep their identity)."""
    if not any(isinstance(x, ast.Compare) and len(x.ops) == 1 and (_is_empty_const(x.left) or _is_empty_const(x.comparators[0])) for x in walk_self(t)):
        return t
    if id(t) not in _norm_cache:
        _norm_cache[id(t)] = (t, ast.fix_missing_locations(_EmptyCompare().visit(_shallow_copy(t))))
    return _norm_cache[id(t)][1]


def _shallow_copy(t):
    """Copy of the boolean skeleton (BoolOp / not / Compare nodes) of a test; operands are shared."""
    if isinstance(t, ast.BoolOp):
        return ast.copy_location(ast.BoolOp(t.op, [_shallow_copy(v) for v in t.values]), t)
    if isinstance(t, ast.UnaryOp) and isinstance(t.op, ast.Not):
        return ast.copy_location(ast.UnaryOp(t.op, _shallow_copy(t.operand)), t)
    if isinstance(t, ast.Compare):
        return ast.copy_location(ast.Compare(t.left, list(t.ops), list(t.comparators)), t)
    return t


def _exact_test(w, f, atom, rd, direct):
    """Is the abstract reading of this atomic test exact (linear comparison / emptiness of a read result / live budget)?"""
    def term(x):
        if isinstance(x, ast.Constant):
            return isinstance(x.value, int) and not isinstance(x.value, bool)
        if isinstance(x, ast.Name):
            return x.id not in rd
        if isinstance(x, ast.Attribute):
            return dotted(x) == BUDGET
        if isinstance(x, ast.UnaryOp) and isinstance(x.op, ast.USub):
            return term(x.operand)
        if isinstance(x, ast.BinOp) and isinstance(x.op, (ast.Add, ast.Sub)):
            return term(x.left) and term(x.right)
        if isinstance(x, ast.Call) and isinstance(x.func, ast.Name) and x.func.id == 'len' and len(x.args) == 1 and not x.keywords:
            a = x.args[0]
            if isinstance(a, ast.NamedExpr):
                a = a.value             # len((chunk := self.read(n))): the length of what the read returned
            return (isinstance(a, ast.Name) and a.id in direct) or (isinstance(a, ast.Call) and w.consuming(f, a))
        if isinstance(x, ast.Call) and isinstance(x.func, ast.Name) and x.func.id in ('min', 'max') and len(x.args) >= 2 and not x.keywords:
            return all(term(a) for a in x.args)
        return False

    if isinstance(atom, ast.Compare):
        return len(atom.ops) == 1 and isinstance(atom.ops[0], (ast.Lt, ast.LtE, ast.Gt, ast.GtE, ast.Eq, ast.NotEq)) \
            and term(atom.left) and term(atom.comparators[0])
    if isinstance(atom, ast.Name):
        return atom.id in direct or atom.id not in rd
    if isinstance(atom, ast.Call):
        return w.consuming(f, atom)
    if isinstance(atom, ast.Attribute):
        return dotted(atom) == BUDGET or (dotted(atom.value) == 'self' and atom.attr in w.budget_props() and w.inliner.target(f, atom, 0) is not None)
    return False


def _cyclic_segments(cfg):
    """linexpr.segments, cutting only at loop heads that lie on a cycle.  On a flag-refined graph (cfg_of(...,
    refined=True)) the copy of a `while not done:` head that is reached with the flag set has no way back into the loop: the
    path `if not chunk: done = True` -> head -> exit stays in ONE segment, so the facts that set the flag are still known
    where the loop is left."""
    ok = local_edges(cfg)
    cuts = set()
    for h in loop_heads(cfg):
        seen, work = set(), [y for (y, l) in cfg.succ[h] if ok(h, y, l)]
        while work:
            n = work.pop()
            if n in seen:
                continue
            seen.add(n)
            work.extend(y for (y, l) in cfg.succ[n] if ok(n, y, l))
        if h in seen:
            cuts.add(h)
    for c in [cfg.entry] + sorted(cuts):
        for steps, end in paths_from(cfg, c, cuts, ok):
            yield c, steps, end


def _exhaust_exits(run, w, v, seen):
    """exhaust(): on every normal way out, the last read came back empty or the live budget is used up."""
    p = run.project
    f = w.own(p.func(WSGI + '.exhaust'))

    def procedure(g, call):
        t = w._callee(g, call) if isinstance(call, ast.Call) and isinstance(call.func, ast.Attribute) and dotted(call.func.value) == 'self' else None
        if isinstance(t, Func) and t.qual in w.reading_methods() and not any(isinstance(r, ast.Return) and r.value is not None for r in walk_self(t.node)):
            return t
        return None

    for _ in range(2):      # pure delegation: `def exhaust(...): self._drain(...)`
        body = [s for s in f.node.body if not (isinstance(s, ast.Expr) and isinstance(s.value, ast.Constant))]
        t = procedure(f, body[0].value) if len(body) == 1 and isinstance(body[0], (ast.Expr, ast.Return)) and body[0].value is not None else None
        if t is None:
            break
        f = t
    if f.qual not in w.reading_methods():
        raise UnknownIdiom('%s does not read from the stream' % f.qual)
    cfg = cfg_of(f, p, refined=True)        # (path-sensitive for pure control flags: `done = True` ... `while not done`)
    run.use_cfg(cfg)
    c = Consumption(w, f)
    alldefs = c.defs(f.node.body)
    rd = c.closure(alldefs, c.has_consuming)
    bd = c.closure(alldefs, w.mentions_budget)
    # locals that hold nothing but the result of one read
    direct = {n for n, rhss in alldefs.items() if all(isinstance(r, ast.Call) and w.consuming(f, r) for r in rhss)}
    varying = set()
    heads = set()
    for lp in c.loops:
        varying |= set(c.defs(c.region(lp)))
        if any(c.has_consuming(x) for x in c.region(lp)):
            heads |= {i for i in cfg.nodes_for(lp) if (cfg.node(i).kind == 'test' and cfg.node(i).ast is getattr(lp, 'test', None)) or cfg.node(i).kind == 'iter'}

    def on_call(env, call):
        looked = Inliner.value_of(env, call)
        if looked is not None:
            return looked
        is_self = isinstance(call.func, ast.Attribute) and dotted(call.func.value) == 'self'
        if w.consuming(f, call):
            for a in list(call.args) + [k.value for k in call.keywords]:
                env.eval(a)
            if procedure(f, call) is not None:
                env.ghost['delegated'] = call        # returns no data: what it consumed cannot be judged here
            res = fresh('result of ' + short(call, 40))
            env.kind[res] = 'seq'
            env.ghost['creads'] = env.ghost.get('creads', ()) + ((call, res),)
        if is_self or w.consuming(f, call):
            env.havoc([BUDGET], 'after ' + short(call, 30))
            env.kind[env.vars[BUDGET].lone()] = 'nat'
        return Lin.atom(res) if w.consuming(f, call) else None

    what = 'exhaust() returns only when a read came back empty or the live budget is used up'
    n = 0
    for start, steps, end in _cyclic_segments(cfg):
        if end != cfg.exit:
            continue
        tests = [cfg.node(i) for i, l in steps if cfg.node(i).kind == 'test' and l in ('T', 'F')]
        atoms = [a for t in tests for a in _atoms(_norm_test(t.ast))]
        env = DelEnv(on_call)
        env.declare(BUDGET, 'nat')
        for e in run_steps_inl(env, cfg, steps, w.inliner, rewrite=_norm_test):
            reads = e.ghost.get('creads', ())
            if any(k == 'raise' for k, _v, _n in e.log) or (not reads and start not in heads):
                continue            # not a decision about consumption: nothing was read and no consuming loop is being left
            n += 1
            if not atoms and not reads:
                continue            # iterator exhaustion of a `for`: judged with the loop
            bud = e.eval(_BUDGET_E)
            if any(e.prove_eq(Lin.atom(('len', r)), 0) for _c, r in reads) or (isinstance(bud, Lin) and e.prove_le(bud, 0)):
                v.note(f, 'exhausted on return', what, True)
                continue
            kinds = [c.classify(a, varying, rd, bd) for a in atoms]
            if not reads and all(k == 'N' for k in kinds):
                continue            # left on a loop-invariant condition (e.g. a zero chunk size): no progress is being judged
            last = tests[-1] if tests else None
            cons = (('while ' if isinstance(last.stmt, ast.While) and last.ast is last.stmt.test else 'if ') + unparse(last.ast)) if last is not None \
                else unparse(reads[-1][0])
            if 'U' in kinds or e.ghost.get('delegated') is not None or any(k == 'J' and not _exact_test(w, f, a, rd, direct) for k, a in zip(kinds, atoms)):
                v.unknown('%s: cannot tell whether the body is used up when the method returns after `%s`' % (f.qual, cons))
                continue
            probe = e.fork()
            if not (all(probe.add_le(1, Lin.atom(('len', r))) for _c, r in reads) and isinstance(bud, Lin) and probe.add_le(1, bud)):
                v.unknown('%s: cannot tell whether the body is used up when the method returns after `%s`' % (f.qual, cons))
                continue
            if (f.qual, cons) in seen:
                continue
            seen.add((f.qual, cons))
            v.note(f, 'exit ' + cons, what, False, cons,
                   'exhaust() can return after `%s` although the last read returned data and the budget is not used up: '
                   'it relies on read(n) returning exactly n bytes' % cons,
                   describe_path(cfg, [st[0] for st in steps]),
                   'a wsgi.input that returns short reads: exhaust() returns with part of the declared body unread, eof stays False and the '
                   'next read hands out bytes that should have been discarded')
    if n == 0:
        v.unknown('%s: no way out of the method was recognised as a decision about consumption' % f.qual)


# ---------------------------------------------------------------------------
# R3 (continued): no loss -- whatever a read obtained is handed to the caller
# ---------------------------------------------------------------------------

# methods that promise to throw body data away (one line of reason each)
DISCARDERS = {
    'exhaust': 'documented to consume and discard whatever is left of the body',
}
_HANDING = {'append', 'extend', 'insert', 'add', 'write', 'appendleft', 'join'}


def _discarders(w):
    """The tabled discarding methods plus the value-less helpers only they call."""
    out = {w.cls.methods[n].qual for n in DISCARDERS if n in w.cls.methods}

    def valueless(t):
        return not any((isinstance(x, ast.Return) and x.value is not None) or isinstance(x, (ast.Yield, ast.YieldFrom)) for x in walk_self(t.node))

    callers = {}
    for f in w.methods:
        for c in walk_self(f.node):
            if isinstance(c, ast.Call):
                t = w._callee(f, c)
                if isinstance(t, Func) and t.cls is not None and t.qual in {m.qual for m in w.methods}:
                    callers.setdefault(t.qual, set()).add(f.qual)
    changed = True
    while changed:
        changed = False
        for f in w.methods:
            if f.qual not in out and valueless(f) and callers.get(f.qual) and callers[f.qual] <= out:
                out.add(f.qual)
                changed = True
    return out


def _empty_on_edge(test, truth, name, call):
    """Does `test` coming out `truth` imply that the read result (local `name` / the call expression itself) is empty?"""
    def is_val(e):
        return (name is not None and isinstance(e, ast.Name) and e.id == name) or (call is not None and e is call) \
            or (name is not None and isinstance(e, ast.NamedExpr) and isinstance(e.target, ast.Name) and e.target.id == name)

    def is_len(e):
        return isinstance(e, ast.Call) and isinstance(e.func, ast.Name) and e.func.id == 'len' and len(e.args) == 1 and not e.keywords and is_val(e.args[0])

    if implied(test, truth, lambda e: is_val(e) or is_len(e)) is False:
        return True

    def cmp(e, ops):
        if not (isinstance(e, ast.Compare) and len(e.ops) == 1 and isinstance(e.ops[0], ops)):
            return False
        a, b = e.left, e.comparators[0]
        if _is_empty_const(a) and is_val(b) or _is_empty_const(b) and is_val(a):
            return isinstance(e.ops[0], (ast.Eq, ast.NotEq))
        zero = lambda z: isinstance(z, ast.Constant) and z.value == 0 and not isinstance(z.value, bool)
        return (is_len(a) and zero(b)) or (isinstance(e.ops[0], (ast.Eq, ast.NotEq)) and is_len(b) and zero(a))

    if implied(test, truth, lambda e: cmp(e, (ast.Eq,))) is True:
        return True                 # x == b'' / len(x) == 0
    if implied(test, truth, lambda e: cmp(e, (ast.NotEq, ast.Gt))) is False:
        return True                 # not (x != b'') / not (len(x) > 0)
    return False


def _skipped_or_empty(expr, truth, site, name):
    """Given that the branch condition `expr` comes out `truth`: was the read at `site` (a sub-expression) either not
    evaluated at all (short circuit) or is its result empty?"""
    if not any(y is site for y in walk_self(expr)) and expr is not site:
        return False
    if expr is site:
        return not truth
    if isinstance(expr, ast.UnaryOp) and isinstance(expr.op, ast.Not):
        return _skipped_or_empty(expr.operand, not truth, site, name)
    if isinstance(expr, ast.BoolOp):
        j = next(i for i, x in enumerate(expr.values) if x is site or any(y is site for y in walk_self(x)))
        stop = not isinstance(expr.op, ast.And)          # the operand value that ends the evaluation early
        if truth == stop:
            # some operand i had the stopping value: i < j -> site skipped; i == j -> judged on that operand;
            # i > j -> operand j had the other value
            later = len(expr.values) > j + 1
            return _skipped_or_empty(expr.values[j], stop, site, name) and (not later or _skipped_or_empty(expr.values[j], not stop, site, name))
        return _skipped_or_empty(expr.values[j], not stop, site, name)
    return _empty_on_edge(expr, truth, name, None)


# constructors of lazily consumed objects: what they wrap reaches the caller only as far as the caller goes on iterating
_LAZY = {'builtins.iter', 'builtins.map', 'builtins.filter', 'builtins.zip', 'builtins.enumerate', 'builtins.reversed'}


def _lazy_wrapper(p, f, node, parent):
    """Inside its statement, is `node` (a read, or a local holding its result) handed out only wrapped in a lazily consumed
    object -- `iter(x)`, `map(g, x)`, `(l for l in x)`, `itertools.*`, `yield from x` -- with no eager consumer (`list(...)`,
    `b''.join(...)`, a comprehension) around that?  Returns the wrapping node or None."""
    lazy, cur = None, node
    for a in ancestors(node, parent):
        if isinstance(a, ast.stmt):
            break
        if isinstance(a, ast.Call):
            if cur is a.func:
                lazy = None
            else:
                q = p.resolve_expr(f.module, a.func, f) or ''
                lazy = a if (q in _LAZY and not (q == 'builtins.iter' and len(a.args) == 2)) or q.startswith('itertools.') else None
        elif isinstance(a, (ast.GeneratorExp, ast.YieldFrom)):
            lazy = a
        elif isinstance(a, (ast.ListComp, ast.SetComp, ast.DictComp, ast.Subscript, ast.Attribute, ast.BinOp, ast.Compare)):
            lazy = None
        cur = a
    return lazy


def _no_loss(run, w, v):
    """No loss: inside the wrapper, the result of every read (a gated raw read, or a call of / an iteration over one of the
    class's own reading methods) is handed on -- returned, yielded, stored into what is returned -- on every normal path on
    which it is not provably empty.  The bytes have left wsgi.input and the budget has been charged for them: a result that
    is overwritten, or still unused when the method returns, is a hole in the body the application sees.  (`for line in
    iter(self.readline, b'')` obtains the next line BEFORE the loop body decides anything: a `break` / `continue` ahead of
    the first use drops it.)  Methods tabled in DISCARDERS promise to discard and are exempt.
    Handing a result on means handing the DATA on: a result that leaves the method only wrapped in a lazily consumed object
    (`return iter(self.readlines())`, `yield from self.readlines()`) has been taken from wsgi.input and charged to the budget
    in full, but reaches the caller only as far as the caller goes on iterating.
    Witness: body b'a\\nb\\nc\\n', readlines(1) then read(): the application never sees b'b\\n';
    `for line in stream: break` then read(): eof is true and everything after the first line is gone."""
    p = run.project
    exempt = _discarders(w)
    what = 'whatever a read obtained is handed on (returned / yielded / collected) on every normal path on which it is not provably empty'
    rw = ('body b"a\\nb\\nc\\n" with Content-Length 6: after this operation a following read() continues one read further on -- bytes taken '
          'from wsgi.input and charged to the budget are never handed to the application, eof is reported with part of the body undelivered')
    rw_lazy = ('body b"a\\nb\\nc\\n": `for line in stream: break` (or one next() on the returned object), then read(): b"" and eof is true -- '
               'every line after the first was read from wsgi.input into a private list and is never handed to the application')
    for f in sorted(w.methods, key=lambda f: f.qual):
        parent = enclosing_map(f.node)

        def stmt_of(x):
            for a in [x] + list(ancestors(x, parent)):
                if isinstance(a, ast.stmt):
                    return a
            return None

        def within(x, kinds):
            """the nearest ancestor of x (inside its statement) of one of `kinds`"""
            for a in ancestors(x, parent):
                if isinstance(a, kinds):
                    return a
                if isinstance(a, ast.stmt):
                    return None
            return None

        # ---- bound-method references: only as the callable of a sentinel iterator (or handed back whole)
        sites = []          # (kind, construct node, tracked local | None, call | None, defining ast node)
        for x in walk_self(f.node):
            if isinstance(x, ast.Attribute) and isinstance(x.ctx, ast.Load) and w.reading_ref(x) is not None:
                up = parent.get(id(x))
                if isinstance(up, ast.Call) and up.func is x:
                    continue            # an ordinary call: handled below
                if f.qual in exempt:
                    continue
                st = stmt_of(x)
                if isinstance(st, ast.Return):
                    continue
                if isinstance(up, ast.Call) and w.sentinel_iter(up) is not None:
                    up2 = parent.get(id(up))
                    if isinstance(up2, (ast.For, ast.AsyncFor)) and up2.iter is up and isinstance(up2.target, ast.Name):
                        sites.append(('loop', up2, up2.target.id, None, up2))
                        continue
                v.unknown('%s: the reading method `%s` is passed around as a value (`%s`)' % (f.qual, unparse(x), short(st, 50)))
        # ---- calls
        for c in walk_self(f.node):
            if not (isinstance(c, ast.Call) and w.consuming(f, c)) or w.sentinel_iter(c) is not None:
                continue
            if f.qual in exempt:
                v.note(f, 'no loss', what, True)
                continue
            t = w._callee(f, c)
            if isinstance(t, Func) and t.qual in exempt:
                continue                # a discarding procedure: there is no result
            st = stmt_of(c)
            inner = c
            up = parent.get(id(c))
            if isinstance(up, ast.Await):
                inner, up = up, parent.get(id(up))
            if isinstance(st, ast.Return) or within(c, (ast.Yield, ast.YieldFrom)) is not None:
                lz = _lazy_wrapper(p, f, c, parent)
                if lz is not None:
                    v.note(f, 'no loss', what, False, lz,
                           'the result of `%s` leaves the method only inside a lazily consumed object (`%s`): the read has taken the data from '
                           'wsgi.input and charged the budget for all of it, the caller receives only as much as it goes on to iterate'
                           % (short(c, 50), short(lz, 60)), None, rw_lazy)
                    continue
                v.note(f, 'no loss', what, True)
                continue
            if isinstance(st, ast.Expr) and st.value is inner:
                v.note(f, 'no loss', what, False, st, 'the result of `%s` is thrown away' % short(c, 50), None, rw)
                continue
            if isinstance(st, (ast.Assign, ast.AnnAssign)) and st.value is inner:
                tg = st.targets if isinstance(st, ast.Assign) else [st.target]
                if len(tg) == 1 and isinstance(tg[0], ast.Name):
                    sites.append(('assign', st, tg[0].id, None, st))
                    continue
            if isinstance(up, ast.NamedExpr) and up.value is inner and isinstance(up.target, ast.Name):
                sites.append(('walrus', up, up.target.id, None, up))
                continue
            if isinstance(up, ast.Call) and isinstance(up.func, ast.Attribute) and up.func.attr in _HANDING and isinstance(up.func.value, ast.Name) \
                    and any(a is inner for a in up.args):
                v.note(f, 'no loss', what, True)        # lines.append(self.readline())
                continue
            if isinstance(st, ast.AugAssign) and isinstance(st.target, ast.Name) and isinstance(st.op, ast.Add) and st.value is inner:
                v.note(f, 'no loss', what, True)        # data += self.read(n)
                continue
            if isinstance(st, (ast.If, ast.While)) and any(y is c for y in walk_self(st.test)):
                sites.append(('test', c, None, c, st.test))
                continue
            v.unknown('%s: cannot tell what becomes of the result of `%s` in `%s`' % (f.qual, short(c, 40), short(st, 50)))
        if not sites:
            continue
        cfg = cfg_of(f, p)
        run.use_cfg(cfg)
        for kind, cons, name, call, anchor in sites:
            if kind == 'loop':
                dnodes = [i for i in cfg.nodes_for(anchor) if cfg.node(i).kind == 'iter']
            elif kind == 'test':
                dnodes = [i for i in cfg.nodes_for(anchor) if cfg.node(i).kind == 'test']
            else:
                dnodes = [n.id for n in cfg.live_nodes() if n.kind in ('stmt', 'test') and any(y is anchor for y in n.walk())]
            if not dnodes:
                continue                # dead code
            # nodes that hand the value on: any load outside a branch condition other than taking its length / truth
            uses, redefs = set(), set()
            if name is not None:
                for n in cfg.live_nodes():
                    loads = [y for y in n.walk() if isinstance(y, ast.Name) and y.id == name]
                    if any(isinstance(y.ctx, (ast.Store, ast.Del)) for y in loads):
                        redefs.add(n.id)
                    if n.kind == 'test':
                        continue
                    for y in loads:
                        if not isinstance(y.ctx, ast.Load):
                            continue
                        up = parent.get(id(y))
                        if isinstance(up, ast.Call) and isinstance(up.func, ast.Name) and up.func.id in ('len', 'bool') and up.args == [y]:
                            continue
                        if isinstance(stmt_of(y), (ast.Return, ast.Expr)) and _lazy_wrapper(p, f, y, parent) is not None:
                            continue            # return iter(lines) / yield from lines: no hand-over of the data
                        uses.add(n.id)
            dead_edges = set()
            for n in cfg.live_nodes():
                if n.kind == 'test':
                    for (y, l) in cfg.succ[n.id]:
                        if l in ('T', 'F') and _empty_on_edge(n.ast, l == 'T', name, call):
                            dead_edges.add((n.id, y, l))
            for d in dnodes:
                if kind == 'walrus' and cfg.node(d).kind == 'test':
                    dead_edges |= {(d, y, l) for (y, l) in cfg.succ[d] if l in ('T', 'F') and _skipped_or_empty(cfg.node(d).ast, l == 'T', cons, name)}
                starts = [y for (y, l) in cfg.succ[d] if l != 'exc' and (d, y, l) not in dead_edges
                          and not (kind == 'loop' and l != 'next')]
                own_use = d in uses and kind != 'loop'          # (x = read(); the defining node itself is no use)
                path = flow_find_path(cfg, starts, {cfg.exit} | redefs | {d}, avoid_nodes=uses - ({d} if not own_use else set()),
                                      avoid_edges=dead_edges, edge_filter=_no_exc)
                if path is None:
                    v.note(f, 'no loss', what, True)
                    continue
                head = ('for %s in %s' % (unparse(cons.target), unparse(cons.iter))) if kind == 'loop' else cons
                v.note(f, 'no loss', what, False, head,
                       'the result of `%s` can be dropped: a normal path leaves it unused (and not known to be empty) before the method returns '
                       'or it is overwritten' % (head if isinstance(head, str) else short(cons, 60)),
                       describe_path(cfg, [d] + path), rw)


# ---------------------------------------------------------------------------
# R3 (continued): who may write the budget, and when it may be forced to 0
# ---------------------------------------------------------------------------

def _writes_budget(f) -> bool:
    return any(isinstance(x, ast.Attribute) and dotted(x) == BUDGET and isinstance(x.ctx, (ast.Store, ast.Del)) for x in walk_self(f.node))


def _bind(p, callee, call, name, env):
    """The value the call hands to parameter `name` of the method `callee` (None when it cannot be told)."""
    ps = [a for a in callee.params() if a != 'self']
    if name not in ps or any(isinstance(a, ast.Starred) for a in call.args) or any(k.arg is None for k in call.keywords):
        return None
    for k in call.keywords:
        if k.arg == name:
            return env.eval(k.value)
    i = ps.index(name)
    if i < len(call.args):
        return env.eval(call.args[i])
    a = callee.node.args
    pos = a.posonlyargs + a.args
    defaults = dict(zip([x.arg for x in pos[len(pos) - len(a.defaults):]], a.defaults))
    return env.eval(defaults[name]) if name in defaults else None


def _hands_size_on(w, t, depth=0) -> bool:
    """Does method `t` hand its size parameter unchanged to the read it performs (so that t(0) asks the raw stream for 0 bytes)?
    A gate does by R2 (the `== 0` cell is exact)."""
    if t.qual in w.gates:
        return True
    try:
        sp = _size_param(w, t)
    except UnknownIdiom:
        return False
    if sp is None or depth > 2 or any(isinstance(n, ast.Name) and n.id == sp and isinstance(n.ctx, ast.Store) for n in walk_self(t.node)):
        return False
    for c in walk_self(t.node):
        if not (isinstance(c, ast.Call) and w.consuming(t, c)):
            continue
        if w.raw_method(c.func) in CONTRACT:
            if len(c.args) == 1 and not c.keywords and isinstance(c.args[0], ast.Name) and c.args[0].id == sp:
                return True
            continue
        u = w._callee(t, c)
        if isinstance(u, Func) and _hands_size_on(w, u, depth + 1):
            try:
                usp = _size_param(w, u)
            except UnknownIdiom:
                continue
            ups = [a for a in u.params() if a != 'self']
            if usp in ups:
                i = ups.index(usp)
                arg = next((k.value for k in c.keywords if k.arg == usp), c.args[i] if i < len(c.args) else None)
                if isinstance(arg, ast.Name) and arg.id == sp:
                    return True
    return False


def _budget_writes(run, w, v, forced):
    """Every method of the wrapper but the constructor: the budget changes only through the accounted deduction of a read
    (judged above), and it is FORCED to 0 only where the facts on the path prove that a read which was asked for something
    other than 0 bytes came back empty -- `read(0)` returns b'' with the whole body still to come, so an unconditional or
    `not data`-only guarded reset reports end-of-stream and loses the body.  `forced` collects the methods in which a
    forced store was judged (their paths are not judged a second time as deductions)."""
    p = run.project
    for f in w.methods:
        if any(isinstance(x, ast.Constant) and x.value == BUDGET.split('.')[1] for x in walk_self(f.node)):
            raise UnknownIdiom('%s: the budget attribute is named in a string (reflective access?)' % f.qual)
    writers = {f.qual for f in w.methods if _writes_budget(f)}

    def self_callees(f):
        for c in walk_self(f.node):
            t = None
            if isinstance(c, ast.Call) and isinstance(c.func, ast.Attribute) and dotted(c.func.value) == 'self':
                t = w.cls.methods.get(c.func.attr)
            elif isinstance(c, ast.Attribute) and isinstance(c.ctx, ast.Load) and dotted(c.value) == 'self':
                t = w.cls.methods.get(c.attr)
                t = t if t is not None and t.is_property() else None
            if t is not None and t.name != '__init__':
                yield t

    # helpers that are looked through carry their writes into their callers
    changed = True
    while changed:
        changed = False
        for f in w.methods:
            if f.qual not in writers and any(t.qual in writers and w.inliner._inlinable(t) for t in self_callees(f)):
                writers.add(f.qual)
                changed = True
    called = {t.qual for f in w.methods for t in self_callees(f)}
    at_callers = {q for q in writers if q in called and w.inliner._inlinable(w.own(p.func(q)))}      # judged where they are called
    what = 'the budget is forced to 0 only after a read that was asked for more than 0 bytes came back empty'
    swept = []
    for f in sorted(w.methods, key=lambda f: f.qual):
        if f.qual not in writers or f.qual in at_callers:
            continue
        swept.append(f.name)
        cfg = cfg_of(f, p)
        run.use_cfg(cfg)
        is_reader = bool(w.read_sites(f))
        gate = w.gates.get(f.qual)
        sp = _size_param(w, f)
        heads = loop_heads(cfg)
        if heads and sp and any(isinstance(n, ast.Name) and n.id == sp and isinstance(n.ctx, ast.Store) for n in walk_self(f.node)):
            raise UnknownIdiom('%s: the size parameter is reassigned in a function with loops' % f.qual)

        def set_budget(env, val):
            env.ghost['bud'] = val

        def on_call(env, call, f=f, gate=gate):
            looked = Inliner.value_of(env, call)
            if looked is not None:
                return looked
            is_self = isinstance(call.func, ast.Attribute) and dotted(call.func.value) == 'self'
            if w.consuming(f, call):
                raw = (gate and isinstance(call.func, ast.Name) and call.func.id == gate[1]) or w.raw_method(call.func) in CONTRACT
                if raw:
                    arg = env.eval(call.args[0]) if len(call.args) == 1 and not call.keywords else None
                else:
                    t = w._callee(f, call)
                    arg = None
                    if isinstance(t, Func) and _hands_size_on(w, t):
                        arg = _bind(p, t, call, _size_param(w, t), env)
                    for a in list(call.args) + [k.value for k in call.keywords]:
                        env.eval(a)
                res = fresh('result of ' + short(call, 40))
                env.kind[res] = 'seq'
                env.ghost['creads'] = env.ghost.get('creads', ()) + ((call, arg, res),)
                if not raw:
                    env.havoc([BUDGET], 'after ' + short(call, 30))         # the callee accounts for itself
                    env.kind[env.vars[BUDGET].lone()] = 'nat'
                    set_budget(env, env.vars[BUDGET])
                return Lin.atom(res)
            if is_self:
                t = w.cls.methods.get(call.func.attr)
                if t is not None and t.qual in at_callers:
                    v.unknown('%s: `%s` writes the budget and could not be looked through' % (f.qual, short(call, 40)))
                env.havoc([BUDGET], 'after ' + short(call, 30))
                env.kind[env.vars[BUDGET].lone()] = 'nat'
                set_budget(env, env.vars[BUDGET])
            return None

        unk, bad = [], []

        def judge(env, start, steps, cname, f=f, cfg=cfg, is_reader=is_reader, sp=sp, unk=unk, bad=bad):
            cur = env.eval(_BUDGET_E)
            prev = env.ghost.get('bud')
            node = env.ghost.get('at')
            if not isinstance(cur, Lin) or not isinstance(prev, Lin):
                if cur is not prev:
                    unk.append('%s: the budget is given a non-numeric value' % f.qual)
                    set_budget(env, cur)
                return
            if Env.same(cur, prev):
                return
            set_budget(env, cur)
            if env.prove_eq(cur, prev):
                return
            cons = node.ast if node is not None and node.kind == 'stmt' else BUDGET + ' written'
            if not cur.is_const:
                if not is_reader:
                    unk.append('%s: `%s` changes the budget in a method that performs no read of its own' % (f.qual, short(cons, 50) if not isinstance(cons, str) else cons))
                return              # a deduction in a method that reads: judged above against what the read returned
            forced.add(f.qual)
            if cur.c != 0:
                unk.append('%s: the budget is forced to the constant %d' % (f.qual, cur.c))
                return
            reads = env.ghost.get('creads', ())

            def may_be_zero(arg):
                if arg is NONE or (isinstance(arg, Lin) and arg.lone() is not None and env.is_none.get(arg.lone()) is True):
                    return False            # "everything that is left"
                return not isinstance(arg, Lin) or env.fork().add_eq(arg, 0)

            def excluded_or_idle(arg):
                # a request for 0 bytes is excluded by the path facts, or it can only happen with the budget at 0 already
                if not may_be_zero(arg):
                    return True
                if not isinstance(arg, Lin):
                    return False
                zero = env.fork()
                zero.add_eq(arg, 0)
                return zero.prove_eq(cur, prev)

            if any(env.prove_eq(Lin.atom(('len', res)), 0) and excluded_or_idle(arg) for _c, arg, res in reads):
                v.note(f, 'forced end of stream', what, True)
                return
            if start == cfg.entry and all(isinstance(arg, Lin) and env.prove_eq(arg, 0) for _c, arg, _r in reads):
                if reads:
                    msg = ('for %s %s the budget is set to 0 after `%s` although that read was asked for 0 bytes: its empty result says '
                           'nothing about the end of the body' % (sp or 'size', cname, short(reads[-1][0], 50)))
                    rw = ('%s(0) on a fresh stream returns b"" and flips eof to True with the whole body unread; every later read / readline / '
                          'iteration returns nothing' % f.name)
                else:
                    msg = 'the budget is set to 0 on a path that has not read anything from the stream'
                    rw = '%s() on a fresh stream: eof becomes True with the whole body unread; every later read returns nothing' % f.name
                bad.append(cons)
                v.note(f, 'forced end of stream', what, False, cons, msg, describe_path(cfg, [st[0] for st in steps]), rw)
                return
            unk.append('%s: cannot tell whether a read that was asked for more than 0 bytes came back empty before `%s`'
                      % (f.qual, short(cons, 50) if not isinstance(cons, str) else cons))

        def edge_ok(a, b, l, cfg=cfg):
            # (a store followed by an explicit `raise` is a store all the same)
            return l != 'exc' or cfg.node(b).kind == 'handler' or isinstance(getattr(cfg.node(a), 'ast', None), ast.Raise)

        segs = list(segments(cfg, edge_ok=edge_ok))
        # acyclic segments between cut points, plus every "first iteration" path entry -> loop head -> next cut point
        # (a genuine path from the entry: only such a path can show that NO read precedes a store)
        paths = [(s0, st) for s0, st, _e in segs]
        paths += [(cfg.entry, pst + sst) for (ps, pst, pe) in segs if ps == cfg.entry and pe in heads for (ss, sst, _se) in segs if ss == pe]
        cells = CELLS if sp else [('(no size parameter)', None)]
        for cname, cset in cells:
            for start, steps in paths:
                env = DelEnv(on_call)
                rem = env.declare(BUDGET, 'nat')
                if sp is not None:
                    s = env.var(sp)
                    if cname != 'is None':
                        env.is_none[s.lone()] = False
                    if not cset(env, s, rem):
                        continue
                set_budget(env, rem)

                def on_node(e, n, label, start=start, steps=steps, cname=cname):
                    judge(e, start, steps, cname)
                    e.ghost['at'] = n

                for e in run_steps_inl(env, cfg, steps, w.inliner, on_node=on_node, rewrite=_norm_test):
                    judge(e, start, steps, cname)
        if not bad:
            for u in unk:
                v.unknown(u)
    for q in w.inliner.used:
        run.use(p.func(q))
    run.ok('the budget is written only by the constructor and by methods whose every write is judged (accounted deduction or proven end of stream)',
           p.cls(WSGI).loc() if hasattr(p.cls(WSGI), 'loc') else WSGI, 'budget writers: %s' % (', '.join(sorted(swept)) or '(none)'))


# ---------------------------------------------------------------------------
# ASGI
# ---------------------------------------------------------------------------

def r4_conservation(run):
    v = Verdicts(run)
    for name in ('read', 'readall', '_iter_content', 'exhaust'):
        f = asgi_func(run.project, name)
        asgi_loops(run, v, f, mode='conservation')
        asgi_positions(run, v, f)
    run.assume('C07 R4: nothing else operates on the stream while its body iterator is suspended at a `yield` (documented exclusive use)')
    for name in ('exhaust', 'readall', '_iter_content'):
        asgi_drained(run, v, asgi_func(run.project, name))
    asgi_initial_position(run, v)
    v.flush()


def r5_termination(run):
    v = Verdicts(run)
    for name in ('read', 'readall', '_iter_content', 'exhaust'):
        f = asgi_func(run.project, name)
        asgi_loops(run, v, f, mode='termination')
        asgi_keys(run, v, f)
    for f in sorted(asgi_cls(run.project).methods.values(), key=lambda f: f.qual):
        asgi_indexing(run, v, f)
    asgi_constructor(run, v)
    v.flush()


def r6_lazy(run):
    lazy_wrapping(run)


def check(run):
    run.assume('C07: the wrapped wsgi.input follows the io contracts tabled in CONTRACT (read exact up to EOF, readline at most n, readlines hint)')
    run.assume('C07: an ASGI http.request event carries bytes under "body"; receive() returns a dict')
    run.rule('R1', r1_single_gate, 'WSGI: every raw-stream use is a clamped, accounted read', floor=2)
    run.rule('R2', r2_clamp_domain, 'WSGI: the clamp covers the whole domain of the size argument', floor=6)
    run.rule('R3', r3_accounting, 'WSGI: the amount deducted is the number of bytes obtained; decisions about consumption rest on bytes obtained; the budget is forced to 0 only on a proven end of stream', floor=5)
    run.rule('R4', r4_conservation, 'ASGI: per-path conservation in the receive loops (bytes handed on, budget, position <= Content-Length); draining operations leave nothing in the buffer', floor=15)
    run.rule('R5', r5_termination, 'ASGI: loops end on disconnect / missing keys; constructor clamps', floor=10)
    run.rule('R6', r6_lazy, 'lazy, memoised wrapping from Content-Length; the budget is fed only by the server-framed length (CONTENT_LENGTH / content-length), never by an HTTP_* key', floor=6)
