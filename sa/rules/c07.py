"""C07 - request body streams (DESIGN.md section 3, C07).

WSGI (falcon.stream.BoundedStream): R1 every raw-stream use is a size-clamped
read, R2 sign/partition analysis of the clamp, R3 accounting against the `io`
contract of the method that is called.  ASGI (falcon.asgi.stream.BoundedStream):
R4 per-path conservation in the receive loops, R5 termination, R6 lazy
wrapping on both request classes.
"""

from __future__ import annotations

import ast

from ..cfg import cfg_of
from ..linexpr import Env, Lin, NONE, Seq, fresh, local_edges, loop_heads, paths_from, run_steps, segments
from ..model import AnchorError, Func, UnknownIdiom, dotted, short, unparse
from .c07_helpers import (ASGI, BUDGET, WSGI, Verdicts, asgi_constructor, asgi_initial_position, asgi_keys, asgi_loops,
                          asgi_positions, lazy_wrapping, require_attrs)
from .common import enclosing_map, walk_self

# `io` documentation: what a raw-stream method returns for a size argument n
CONTRACT = {
    'read': 'exact',        # n bytes unless EOF comes first
    'readline': 'at-most',  # one line, at most n bytes
    'read1': 'at-most',
    'readlines': 'hint',    # list of lines; n is only a hint, the total may exceed it
}
NON_READING = {'close', 'closed', 'fileno', 'isatty', 'readable', 'seekable', 'writable', 'tell', 'name', 'mode'}


# ---------------------------------------------------------------------------
# the WSGI wrapper: anchors
# ---------------------------------------------------------------------------

class Wsgi:
    def __init__(self, run):
        p = run.project
        self.p = p
        self.cls = p.cls(WSGI)
        init = p.func(WSGI + '.__init__')
        require_attrs(p, WSGI, [BUDGET])
        params = [a for a in init.params() if a != 'self']
        if not params:
            raise AnchorError('%s.__init__ takes no stream' % WSGI)
        raws = [t.attr for s in walk_self(init.node) if isinstance(s, ast.Assign) and isinstance(s.value, ast.Name)
                and s.value.id == params[0] for t in s.targets if isinstance(t, ast.Attribute) and dotted(t) == 'self.' + t.attr]
        if len(raws) != 1:
            raise AnchorError('%s.__init__: attribute holding the raw stream not found' % WSGI)
        self.raw = 'self.' + raws[0]
        # gates: methods that call one of their parameters
        self.gates = {}
        for name, f in self.cls.methods.items():
            ps = [a for a in f.params() if a != 'self']
            called = [c.func.id for c in walk_self(f.node) if isinstance(c, ast.Call) and isinstance(c.func, ast.Name) and c.func.id in ps]
            if called:
                if len(set(called)) != 1:
                    raise UnknownIdiom('%s calls several of its parameters' % f.qual)
                self.gates[f.qual] = (f, called[0], ps.index(called[0]))
        self.methods = [f for f in self.cls.methods.values() if f.name != '__init__']

    def gate_of_call(self, func, call):
        tgt = self.p.callee(func, call)
        return self.gates.get(tgt.qual) if isinstance(tgt, Func) else None

    def callback_arg(self, gate, call):
        _f, cb, idx = gate
        for k in call.keywords:
            if k.arg == cb:
                return k.value
        return call.args[idx] if idx < len(call.args) else None

    def raw_method(self, e):
        """'read' for the expression self.<raw>.read, else None."""
        if isinstance(e, ast.Attribute) and dotted(e.value) == self.raw:
            return e.attr
        return None

    def read_sites(self, f):
        """(call node, kind, method|None): calls in f that read from the raw stream."""
        out = []
        gate = self.gates.get(f.qual)
        for c in walk_self(f.node):
            if not isinstance(c, ast.Call):
                continue
            if gate and isinstance(c.func, ast.Name) and c.func.id == gate[1]:
                out.append((c, 'callback', None))
            elif self.raw_method(c.func) in CONTRACT:
                out.append((c, 'direct', c.func.attr))
        return out


def r1_single_gate(run):
    w = Wsgi(run)
    n = 0
    for f in w.methods:
        parent = enclosing_map(f.node)
        for node in walk_self(f.node):
            if not (isinstance(node, ast.Attribute) and dotted(node) == w.raw and isinstance(node.ctx, ast.Load)):
                continue
            n += 1
            run.use(f)
            up = parent.get(id(node))
            up2 = parent.get(id(up)) if up is not None else None
            what = 'the raw stream is only read through a size-clamped, accounted call'
            if isinstance(up, ast.Attribute) and isinstance(up2, ast.Call):
                gate = w.gate_of_call(f, up2)
                if up2.func is not up and gate is not None and w.callback_arg(gate, up2) is up:
                    run.ok(what + ' (bound method handed to the clamping helper %s)' % gate[0].name, f.loc(up2), up2)
                    continue
                if up2.func is up and up.attr in CONTRACT and len(up2.args) == 1 and not up2.keywords:
                    run.ok(what + ' (direct sized call, analysed by R2/R3)', f.loc(up2), up2)
                    continue
                if up2.func is up and up.attr in NON_READING:
                    run.ok('non-reading use of the raw stream', f.loc(up2), up2)
                    continue
            if isinstance(up, ast.Attribute) and up.attr in NON_READING and not isinstance(up2, ast.Call):
                run.ok('non-reading use of the raw stream', f.loc(up), up)
                continue
            cons = up2 if isinstance(up2, ast.Call) and isinstance(up, ast.Attribute) else (up if isinstance(up, (ast.Call, ast.Attribute)) else node)
            run.fail('unclamped, unaccounted use of the raw stream (not a sized read through the budget clamp)', f, cons,
                     runtime_witness='a body longer than Content-Length: this operation returns bytes beyond the declared length '
                                     'and the budget/eof do not change')
    if n == 0:
        raise AnchorError('%s: no use of %s found' % (WSGI, w.raw))


# ---------------------------------------------------------------------------
# R2 / R3: abstract execution of every function that reads from the raw stream
# ---------------------------------------------------------------------------

CELLS = [
    ('is None', lambda e, s, rem: e._set(e.is_none, s.lone(), True)),
    ('== -1', lambda e, s, rem: e.add_eq(s, -1)),
    ('< -1', lambda e, s, rem: e.add_le(s, -2)),
    ('== 0', lambda e, s, rem: e.add_eq(s, 0)),
    ('in (0, remaining]', lambda e, s, rem: e.add_le(1, s) and e.add_le(s, rem)),
    ('> remaining', lambda e, s, rem: e.add_le(rem + Lin.const(1), s)),
]


def _reader_funcs(w):
    out = []
    for f in sorted(w.methods, key=lambda f: f.qual):
        sites = w.read_sites(f)
        if sites:
            out.append((f, sites))
    if not out:
        raise AnchorError('%s: no method reads from the raw stream through a sized call' % WSGI)
    return out


def _size_param(w, f):
    gate = w.gates.get(f.qual)
    ps = [a for a in f.params() if a != 'self' and not (gate and a == gate[1])]
    if len(ps) > 1:
        raise UnknownIdiom('%s: more than one candidate size parameter %s' % (f.qual, ps))
    return ps[0] if ps else None


def _exec_reader(w, f, cfg, setup):
    """Run every entry->exit path of f; yields (env, reads) with reads = [(call, arg value, result atom)]."""
    gate = w.gates.get(f.qual)

    def on_call(env, call):
        is_cb = gate and isinstance(call.func, ast.Name) and call.func.id == gate[1]
        if is_cb or w.raw_method(call.func) in CONTRACT:
            arg = env.eval(call.args[0]) if len(call.args) == 1 and not call.keywords else None
            res = fresh('result of ' + short(call, 40))
            env.ghost['reads'] = env.ghost.get('reads', ()) + ((call, arg, res),)
            return Lin.atom(res)
        if isinstance(call.func, ast.Attribute) and dotted(call.func.value) == 'self':
            env.havoc([BUDGET], 'after ' + short(call, 30))     # another method of the wrapper may move the budget
        return None

    sp = _size_param(w, f)
    heads = loop_heads(cfg)
    if heads and sp and any(isinstance(n, ast.Name) and n.id == sp and isinstance(n.ctx, ast.Store) for n in walk_self(f.node)):
        raise UnknownIdiom('%s: the size parameter is reassigned in a function with loops' % f.qual)
    for _start, steps, end in segments(cfg):
        env = Env(on_call)
        rem = env.declare(BUDGET, 'nat')
        if not setup(env, rem):
            continue
        for e in run_steps(env, cfg, steps):
            yield e, e.ghost.get('reads', ())


def r2_clamp_domain(run):
    w = Wsgi(run)
    run.assume('C07 R2/R3: the budget %s is a non-negative integer on entry (established by R2+R3 inductively)' % BUDGET)
    pending = []
    for f, sites in _reader_funcs(w):
        cfg = cfg_of(f, run.project)
        run.use_cfg(cfg)
        sp = _size_param(w, f)
        cells = CELLS if sp else [('(no size parameter)', lambda e, s, rem: True)]
        for cname, cset in cells:
            def setup(env, rem, cset=cset, cname=cname):
                if sp is None:
                    return True
                s = env.var(sp)
                if cname != 'is None':
                    env.is_none[s.lone()] = False
                return cset(env, s, rem)

            bad, unknown, n = {}, [], 0
            for env, reads in _exec_reader(w, f, cfg, setup):
                rem0 = env.var(BUDGET)
                for (call, arg, _res) in reads:
                    n += 1
                    if isinstance(arg, Lin) and env.prove_le(0, arg) and env.prove_le(arg, rem0):
                        continue
                    is_none = isinstance(arg, Lin) and arg.lone() is not None and env.is_none.get(arg.lone()) is True
                    if arg is NONE or arg is None or is_none or (isinstance(arg, Lin) and (env.prove_lt(arg, 0) or env.prove_lt(rem0, arg))):
                        bad['%s [%s %s]' % (unparse(call), sp or 'size', cname)] = (call, arg)
                    else:
                        unknown.append('%s: cannot bound %r for %s %s' % (f.qual, arg, sp, cname))
            where = f.loc()
            for cons, (call, arg) in sorted(bad.items()):
                run.fail('for %s %s the size handed to the raw stream is %s, outside [0, remaining budget]' % (sp or 'size', cname, 'None' if cname == 'is None' else repr(arg)),
                         f, cons, where=f.loc(call),
                         runtime_witness='%s(%s) with %s %s on a body longer than Content-Length reads past the declared length'
                                         % (f.name, sp, sp, cname))
            if unknown and not bad:
                pending.append(unknown[0])
            elif not bad:
                run.ok('for %s %s every size handed to the raw stream lies in [0, remaining budget] (%d read(s) on the feasible paths)'
                       % (sp or 'size', cname, n), where, '%s [%s]' % (f.name, cname))
    if pending:
        raise UnknownIdiom('; '.join(pending[:3]))


def r3_accounting(run):
    w = Wsgi(run)
    p = run.project
    pending = []
    modes = {}
    for f, sites in _reader_funcs(w):
        cfg = cfg_of(f, p)
        run.use_cfg(cfg)
        how = set()
        for env, reads in _exec_reader(w, f, cfg, lambda env, rem: True):
            if not reads:
                continue
            if len(reads) > 1:
                raise UnknownIdiom('%s: several raw reads on one path' % f.qual)
            call, arg, res = reads[0]
            d = env.var(BUDGET) - env.eval(ast.parse(BUDGET, mode='eval').body)
            if isinstance(arg, Lin) and env.same(d, arg):
                how.add('request')
            elif env.same(d, Lin.atom(('len', res))):
                how.add('result')
            elif env.same(d, 0):
                run.fail('the budget is not decremented on a path that reads from the raw stream', f, call,
                         runtime_witness='two consecutive reads together return more than Content-Length bytes')
                how.add('none')
            else:
                pending.append('%s: deducted amount %r is neither the requested size %r nor len(result)' % (f.qual, d, arg))
        modes[f.qual] = how
        if how and 'none' not in how and not pending:
            run.ok('every reading path deducts %s from the budget' % ' or '.join(sorted('the requested size' if h == 'request' else 'len(result)' for h in how)),
                   f.loc(), f.name)
    # each (caller, method) pair against the io contract
    for f in sorted(w.methods, key=lambda f: f.qual):
        for c in walk_self(f.node):
            if not isinstance(c, ast.Call):
                continue
            meth, via = None, None
            gate = w.gate_of_call(f, c)
            if gate is not None:
                cb = w.callback_arg(gate, c)
                meth, via = w.raw_method(cb), gate[0]
                if cb is None or meth is None:
                    if isinstance(cb, ast.Name) and f.qual in w.gates and cb.id == w.gates[f.qual][1]:
                        continue    # a gate forwarding its own callback
                    raise UnknownIdiom('%s: callback %s is not a method of the raw stream' % (f.qual, short(cb, 40) if cb is not None else '<missing>'))
            elif w.raw_method(c.func) in CONTRACT and f.qual not in w.gates:
                meth, via = c.func.attr, f
            if meth is None:
                continue
            if meth not in CONTRACT:
                raise UnknownIdiom('%s: no io contract tabled for raw method %s' % (f.qual, meth))
            how = modes.get(via.qual, set())
            contract = CONTRACT[meth]
            what = 'the amount deducted for %s(n) equals the bytes obtained' % meth
            if contract == 'hint':
                run.fail(what + ': n is only a hint for %s, the lines returned may total more than n' % meth, f, c,
                         runtime_witness='Content-Length 2 over b"abcdef\\nxyz": %s(...) returns b"abcdef\\n"' % f.name)
            elif 'request' in how and contract != 'exact':
                run.fail(what + ': %s may return fewer than n bytes, yet n is deducted (the tail of the body is lost, eof reported early)' % meth,
                         f, c, runtime_witness='body b"a\\nbcdef": %s() returns b"a\\n", a following read() returns b"" and eof is true' % f.name)
            elif how and how <= {'request', 'result'}:
                run.ok(what + ' (%s contract of io.%s, deduction by %s)' % (contract, meth, '/'.join(sorted(how))), f.loc(c), c)
    if pending:
        raise UnknownIdiom('; '.join(pending[:3]))


# ---------------------------------------------------------------------------
# ASGI
# ---------------------------------------------------------------------------

def r4_conservation(run):
    v = Verdicts(run)
    for name in ('read', 'readall', '_iter_content', 'exhaust'):
        f = run.project.func('%s.%s' % (ASGI, name))
        asgi_loops(run, v, f, mode='conservation')
        asgi_positions(run, v, f)
    asgi_initial_position(run, v)
    v.flush()


def r5_termination(run):
    v = Verdicts(run)
    for name in ('read', 'readall', '_iter_content', 'exhaust'):
        f = run.project.func('%s.%s' % (ASGI, name))
        asgi_loops(run, v, f, mode='termination')
        asgi_keys(run, v, f)
    asgi_constructor(run, v)
    v.flush()


def r6_lazy(run):
    lazy_wrapping(run)


def check(run):
    run.assume('C07: the wrapped wsgi.input follows the io contracts tabled in CONTRACT (read exact up to EOF, readline at most n, readlines hint)')
    run.assume('C07: an ASGI http.request event carries bytes under "body"; receive() returns a dict')
    run.rule('R1', r1_single_gate, 'WSGI: every raw-stream use is a clamped, accounted read', floor=2)
    run.rule('R2', r2_clamp_domain, 'WSGI: the clamp covers the whole domain of the size argument', floor=6)
    run.rule('R3', r3_accounting, 'WSGI: the amount deducted is the number of bytes obtained', floor=2)
    run.rule('R4', r4_conservation, 'ASGI: per-path conservation in the receive loops', floor=10)
    run.rule('R5', r5_termination, 'ASGI: loops end on disconnect / missing keys; constructor clamps', floor=10)
    run.rule('R6', r6_lazy, 'lazy, memoised wrapping from Content-Length', floor=4)
