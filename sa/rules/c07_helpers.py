"""C07 helpers: ASGI BoundedStream path obligations (R4/R5), lazy wrapping (R6) and the
look-through of helper methods / properties used by the WSGI rules (R2/R3)."""

from __future__ import annotations

import ast
from typing import List

from .. import flow
from ..cfg import cfg_of
from ..linexpr import Env, Konst, Lin, NONE, Seq, fresh, local_edges, loop_heads, paths_from, run_steps, segments
from ..model import UNKNOWN, AnchorError, Class, Func, UnknownIdiom, dotted, local_names, short, unparse
from .common import ancestors, enclosing_map, implied, nodes_within, strip_await, walk_self

WSGI = 'falcon.stream.BoundedStream'
ASGI = 'falcon.asgi.stream.BoundedStream'
BUDGET = 'self._bytes_remaining'
POS = 'self._pos'
RECEIVE = 'self._receive'
_BUDGET_E = ast.parse(BUDGET, mode='eval').body
_POS_E = ast.parse(POS, mode='eval').body


def require_attrs(p, cls_qual, names):
    """Anchor: the constructor of the class stores every attribute in `names` (e.g. 'self._pos')."""
    init = p.func(cls_qual + '.__init__')
    stored = {dotted(t) for s in walk_self(init.node) if isinstance(s, (ast.Assign, ast.AnnAssign, ast.AugAssign))
              for t in (s.targets if isinstance(s, ast.Assign) else [s.target])}
    missing = [n for n in names if n not in stored]
    if missing:
        raise AnchorError('%s.__init__ does not initialise %s (attribute renamed?)' % (cls_qual, ', '.join(missing)))


# ---------------------------------------------------------------------------
# locals that ARE a bound method: the de-aliased view of a class
# ---------------------------------------------------------------------------

def _binding_counts(fnode):
    """name -> number of ways it is bound anywhere under fnode (2 = more than we want to reason about)."""
    n = {}

    def bump(name, k=1):
        n[name] = n.get(name, 0) + k

    for x in ast.walk(fnode):
        if isinstance(x, ast.Name) and isinstance(x.ctx, (ast.Store, ast.Del)):
            bump(x.id)
        elif isinstance(x, (ast.Global, ast.Nonlocal)):
            for nm in x.names:
                bump(nm, 2)
        elif isinstance(x, ast.ExceptHandler) and x.name:
            bump(x.name)
        elif isinstance(x, (ast.FunctionDef, ast.AsyncFunctionDef, ast.ClassDef)) and x is not fnode:
            bump(x.name, 2)
        elif isinstance(x, ast.alias):
            bump((x.asname or x.name).split('.')[0], 2)
        elif isinstance(x, ast.arg) and not any(x is a for a in ast.walk(fnode.args)):
            bump(x.arg, 2)          # a parameter of a nested def / lambda shadows the name
        elif isinstance(x, (ast.MatchAs, ast.MatchStar)) and x.name:
            bump(x.name, 2)
        elif isinstance(x, ast.MatchMapping) and x.rest:
            bump(x.rest, 2)
    return n


def _stored_self_attrs(cls: Class, skip=()):
    out = set()
    for m in cls.methods.values():
        if m.name in skip:
            continue
        for x in ast.walk(m.node):
            if isinstance(x, ast.Attribute) and isinstance(x.ctx, (ast.Store, ast.Del)) and dotted(x.value) == 'self':
                out.add(x.attr)
            if isinstance(x, ast.Call) and isinstance(x.func, ast.Name) and x.func.id in ('setattr', 'delattr'):
                out.add('*')
    return out


def dealiased_view(p, cls: Class, inner_methods=()) -> Class:
    """A view of `cls` (same qualified name) whose methods have every local that IS a bound method written out again:
    `read = self.read` ... `read(n)` reads as `self.read(n)`, `append = lines.append` ... `append(x)` as `lines.append(x)`,
    `raw_read = self.stream.read` as `self.stream.read` (k3-c07-4: the lookups hoisted out of the loops of readlines() /
    exhaust()).  A local qualifies when it is bound exactly once in the method, by a plain assignment, is no parameter, and
    the expression bound is stable for the duration of the call:
      * `self.<m>` with <m> a plain method of the class that nothing in the class stores into;
      * `self.<a>` / `self.<a>.<name>` with <a> an attribute that only the constructor stores, and the local used only as
        a callee (or <name> one of `inner_methods`, names known to be methods of the wrapped object: then the local may
        also be handed on as a callback, `target = self.stream.read; self._read(size, target)`);
      * `<local>.<name>` with the local used only as a callee and <local> a parameter / local that no statement reachable
        from the assignment binds again (the CFG decides: `chunks = [...]` in both arms of an `if` BEFORE
        `append = chunks.append` is fine).
    The assignment becomes `pass`, every load of the local the expression.  Methods without such a local are shared with the
    class; `cls` itself is returned when no method has one."""
    import copy
    cache = p.__dict__.setdefault('_c07_dealiased', {})
    if cls.qual in cache:
        return cache[cls.qual]
    inner_methods = frozenset(inner_methods)
    stored_any = _stored_self_attrs(cls)
    stored_later = _stored_self_attrs(cls, skip=('__init__',))
    reflective = '*' in stored_any
    methods = {}
    changed = False
    for name, f in cls.methods.items():
        methods[name] = f
        if reflective or not any(isinstance(x, (ast.Assign, ast.AnnAssign)) and isinstance(getattr(x, 'value', None), ast.Attribute)
                                 for x in ast.walk(f.node)):
            continue
        node = f.node
        counts = _binding_counts(node)
        params = {a.arg for a in ast.walk(node.args) if isinstance(a, ast.arg)}
        parent = enclosing_map(node)
        aliases = {}
        for st in ast.walk(node):
            if not (isinstance(st, (ast.Assign, ast.AnnAssign)) and isinstance(getattr(st, 'value', None), ast.Attribute)):
                continue
            tg = st.targets if isinstance(st, ast.Assign) else [st.target]
            if len(tg) != 1 or not isinstance(tg[0], ast.Name):
                continue
            L, e = tg[0].id, st.value
            if counts.get(L) != 1 or L in params:
                continue
            loads = [x for x in ast.walk(node) if isinstance(x, ast.Name) and x.id == L and isinstance(x.ctx, ast.Load)]
            only_called = all(isinstance(parent.get(id(x)), ast.Call) and parent[id(x)].func is x for x in loads)
            ch = dotted(e)
            ok = False
            if ch is not None and ch.count('.') == 1 and ch.startswith('self.'):
                m = cls.methods.get(e.attr)
                if m is not None:
                    ok = not m.is_property() and not m.is_setter() and not any(
                        d in ('staticmethod', 'classmethod') for d in m.decorators) and e.attr not in stored_any
                else:
                    ok = only_called and e.attr not in stored_later and e.attr in stored_any
            elif ch is not None and ch.count('.') == 2 and ch.startswith('self.'):
                a = e.value.attr
                ok = (only_called or e.attr in inner_methods) and a not in stored_later and a not in cls.methods
            elif isinstance(e.value, ast.Name) and e.value.id != 'self':
                base = e.value.id
                ok = only_called and base != L and _not_rebound_after(p, f, st, base)
            if ok:
                aliases[L] = (e, st)
        if not aliases:
            continue
        new = copy.deepcopy(node)
        twin = {id(a): b for a, b in zip(ast.walk(node), ast.walk(new))}
        drop = {id(twin[id(st)]) for _e, st in aliases.values()}

        class _Sub(ast.NodeTransformer):
            def visit_Name(self, x):
                if isinstance(x.ctx, ast.Load) and x.id in aliases:
                    return ast.copy_location(copy.deepcopy(aliases[x.id][0]), x)
                return x

            def generic_visit(self, x):
                if id(x) in drop:
                    return ast.copy_location(ast.Pass(), x)
                return super().generic_visit(x)

        new = ast.fix_missing_locations(_Sub().visit(new))
        g = Func(new, f.qual, f.module, f.cls, f.parent)
        g.nested = f.nested
        g.origin = f
        g.dealiased = sorted(aliases)
        methods[name] = g
        changed = True
    view = cls
    if changed:
        view = copy.copy(cls)
        view.methods = methods
        for g in methods.values():
            if getattr(g, 'origin', None) is not None:
                g.cls = view
    cache[cls.qual] = view
    return view


def _not_rebound_after(p, f: Func, st, base: str) -> bool:
    """No CFG node reachable from the statement `st` of f binds the local `base` (again)."""
    if any(isinstance(x, (ast.Global, ast.Nonlocal)) and base in x.names for x in ast.walk(f.node)):
        return False
    for x in ast.walk(f.node):
        # a binding of `base` by anything but a plain statement (loop / with / except target, walrus, nested scope) is not followed
        if isinstance(x, ast.NamedExpr) and isinstance(x.target, ast.Name) and x.target.id == base:
            return False
        if isinstance(x, (ast.For, ast.AsyncFor, ast.comprehension)) and any(isinstance(y, ast.Name) and y.id == base for y in ast.walk(x.target)):
            return False
        if isinstance(x, (ast.With, ast.AsyncWith)) and any(it.optional_vars is not None and any(
                isinstance(y, ast.Name) and y.id == base for y in ast.walk(it.optional_vars)) for it in x.items):
            return False
        if isinstance(x, ast.ExceptHandler) and x.name == base:
            return False
        if isinstance(x, (ast.FunctionDef, ast.AsyncFunctionDef, ast.ClassDef, ast.Lambda)) and x is not f.node and any(
                (isinstance(y, ast.Name) and y.id == base and isinstance(y.ctx, (ast.Store, ast.Del))) or (isinstance(y, ast.arg) and y.arg == base)
                for y in ast.walk(x)):
            return False
    cfg = cfg_of(f, p)
    ids = cfg.nodes_for(st)
    if not ids:
        return False
    after = flow.reachable(cfg, [y for i in ids for (y, _l) in cfg.succ[i]])
    for n in cfg.live_nodes():
        if n.id in after and any(isinstance(y, ast.Name) and y.id == base and isinstance(y.ctx, (ast.Store, ast.Del)) for y in n.walk()):
            return False
    return True


def asgi_cls(p) -> Class:
    """The ASGI wrapper class, locals that are bound methods written out again (`append = chunks.append`)."""
    return dealiased_view(p, p.cls(ASGI))


def asgi_func(p, name: str) -> Func:
    p.func('%s.%s' % (ASGI, name))          # anchor
    return asgi_cls(p).methods[name]


class Verdicts:
    """Aggregates per-path verdicts into one obligation per (function, kind);
    a failing construct is reported once however many paths cross it."""

    def __init__(self, run):
        self.run = run
        self.items = {}
        self.pending = []

    def note(self, f, kind, what, ok, construct=None, msg=None, witness=None, rw=None):
        it = self.items.setdefault((f.qual, kind), {'f': f, 'what': what, 'n': 0, 'fails': {}})
        it['n'] += 1
        if not ok:
            key = construct if isinstance(construct, str) else ' '.join(unparse(construct).split())
            it['fails'].setdefault(key, (construct, msg or what, witness, rw))

    def unknown(self, text):
        self.pending.append(text)

    def flush(self):
        for (_q, kind), it in self.items.items():
            f = it['f']
            if it['fails']:
                for _k, (cons, msg, wit, rw) in sorted(it['fails'].items()):
                    self.run.fail(msg, f, cons, witness=wit, runtime_witness=rw)
            else:
                self.run.ok('%s (%d feasible path state(s))' % (it['what'], it['n']), f.loc(), '%s: %s' % (f.name, kind))
        if self.pending:
            raise UnknownIdiom('; '.join(sorted(set(self.pending))[:3]))


# ---------------------------------------------------------------------------
# abstract execution hooks shared by R4/R5
# ---------------------------------------------------------------------------

class DelEnv(Env):
    """Env that reads `del <local>` (k1-c07-3: `event = None` written as `del event` at the end of a loop body): the
    name is unbound from there on, which is a no-op for the linear evaluation as long as the name is not read again.
    A later read would be a NameError at run time; here it yields a TAINTED symbol, so that nothing is concluded from it."""

    def fork(self):
        e = Env.fork(self)
        e.__class__ = self.__class__
        return e

    def eval(self, e):
        # `(chunk := self.read(n))`: the value of the expression, bound to the local on the way
        if isinstance(e, ast.NamedExpr) and isinstance(e.target, ast.Name):
            v = Env.eval(self, e.value)
            self.assign(e.target, v)
            return v
        return Env.eval(self, e)

    def exec(self, s):
        if isinstance(s, ast.Delete) and all(isinstance(t, ast.Name) for t in s.targets):
            for t in s.targets:
                for k in [k for k in self.vars if k.startswith(t.id + '.')]:
                    del self.vars[k]
                self.vars[t.id] = Lin.atom(fresh('deleted:%s' % t.id, tainted=True))
            return
        Env.exec(self, s)


# Call nodes `L()` where the local L is the receive callable (see receive_aliases); keyed by id(), the node is kept so
# that an id is never reused by another node
_RECEIVE_ALIAS_CALLS = {}


def receive_aliases(f) -> set:
    """Locals of f that ARE `self._receive`: bound exactly once in f, by the plain assignment `L = self._receive`, and
    by nothing else (not a parameter, no second store, del, loop / with / except target, walrus, global / nonlocal).
    k1-c07-2: `receive = self._receive` before the loop and `await receive()` inside."""
    params = set(f.params())
    cands, stores = {}, {}
    for x in ast.walk(f.node):
        if isinstance(x, ast.Name) and isinstance(x.ctx, (ast.Store, ast.Del)):
            stores[x.id] = stores.get(x.id, 0) + 1
        elif isinstance(x, (ast.Global, ast.Nonlocal)):
            for nm in x.names:
                stores[nm] = stores.get(nm, 0) + 2
        elif isinstance(x, ast.ExceptHandler) and x.name:
            stores[x.name] = stores.get(x.name, 0) + 1
        elif isinstance(x, (ast.FunctionDef, ast.AsyncFunctionDef, ast.ClassDef)) and x is not f.node:
            stores[x.name] = stores.get(x.name, 0) + 2
        if isinstance(x, (ast.Assign, ast.AnnAssign)) and getattr(x, 'value', None) is not None and dotted(x.value) == RECEIVE:
            tg = x.targets if isinstance(x, ast.Assign) else [x.target]
            if len(tg) == 1 and isinstance(tg[0], ast.Name):
                cands[tg[0].id] = x
    return {nm for nm in cands if stores.get(nm) == 1 and nm not in params}


def note_receive_aliases(f):
    al = receive_aliases(f)
    if al:
        for c in ast.walk(f.node):
            if isinstance(c, ast.Call) and isinstance(c.func, ast.Name) and c.func.id in al:
                _RECEIVE_ALIAS_CALLS[id(c)] = c
    return al


def is_receive_call(c) -> bool:
    """`self._receive()` or `L()` for a local L that is self._receive (note_receive_aliases of the function ran)."""
    return isinstance(c, ast.Call) and (dotted(c.func) == RECEIVE or _RECEIVE_ALIAS_CALLS.get(id(c)) is c)


def _has_receive_call(h: Func) -> bool:
    note_receive_aliases(h)
    return any(is_receive_call(c) for c in walk_self(h.node))


def seed_module_ints(p, f, env):
    """Bind the module-level integer constants f reads (names that are not locals of f and fold to an int) to their
    values, so that `self._bytes_remaining = _UNKNOWN_LENGTH` reads like `= 2**63` (k2-c07-3: a literal hoisted into a
    module constant).  Returns env."""
    loc = set(local_names(f)) | set(f.params())
    for x in walk_self(f.node):
        if isinstance(x, ast.Name) and isinstance(x.ctx, ast.Load) and x.id not in loc and x.id not in env.vars:
            val = p.fold(f.module, x, f.cls, f)
            if val is not UNKNOWN and isinstance(val, int) and not isinstance(val, bool):
                env.vars[x.id] = Lin.const(val)
    return env


class _Env(DelEnv):
    """Env that also models the clamping of a prefix slice: `len(x[:k]) == min(k, len(x))` for k >= 0
    (the plain evaluator only reads `x[:k]` when `k <= len(x)` is among the path facts), so that a chunk that is
    truncated to the budget BEFORE its length is taken is read as clamped."""

    def _subscript(self, e):
        s = e.slice
        if not (isinstance(s, ast.Slice) and s.lower is None and s.step is None and s.upper is not None):
            return Env._subscript(self, e)
        n = self.length(self.eval(e.value), short(e.value, 40))
        hi = self.eval(s.upper)
        if not isinstance(hi, Lin):
            return Seq(Lin.atom(fresh('len(%s)' % short(e, 40), tainted=True)))
        if not self.prove_le(0, hi):
            self.notes.append('len(%s): side condition 0 <= %r not among the path facts' % (short(e, 60), hi))
            return Seq(Lin.atom(fresh('len(%s)' % short(e, 40), tainted=True)))
        return Seq(self.minmax('min', [hi, n]))


def _const_key(e):
    return e.value if isinstance(e, ast.Constant) and isinstance(e.value, str) else None


def _on_call(env, call):
    f = call.func
    d = dotted(f)
    if is_receive_call(call):
        ev = fresh('event')
        env.ghost['event'] = ev
        env.kind[('sub', ev, 'body')] = 'seq'
        env.kind[('len', ('sub', ev, 'body'))] = 'nat'      # (so that `if num_bytes:` reads as `num_bytes != 0`)
        return Lin.atom(ev)
    if isinstance(f, ast.Attribute) and f.attr == 'append' and isinstance(f.value, ast.Name) and len(call.args) == 1:
        env.log.append(('hand', env.eval(call.args[0]), call))
        return NONE
    if _is_body_get(call):
        # `event.get('body', b'')`: the body when there is one, else nothing -- read as event['body'] of ANY length >= 0
        # (the obligations are proved for every length, 0 included, which is what a missing key amounts to)
        base = env.eval(f.value)
        if isinstance(base, Lin) and base.lone() is not None:
            env.ghost['body_read'] = True
            return Lin.atom(('sub', base.lone(), 'body'))
    if isinstance(f, ast.Attribute) and f.attr == 'get' and call.args and _const_key(call.args[0]) is not None:
        base = env.eval(f.value)
        dflt = env.eval(call.args[1]) if len(call.args) > 1 else NONE
        falsy = dflt is NONE or (isinstance(dflt, Lin) and dflt.is_const and not dflt.c) or (isinstance(dflt, Seq) and dflt.length == Lin.const(0))
        if isinstance(base, Lin) and base.lone() is not None and falsy and call.args[0].value != 'body':
            return Lin.atom(('sub', base.lone(), call.args[0].value))
    if (isinstance(f, ast.Attribute) and dotted(f.value) == 'self') or any(
            dotted(a) == 'self' for a in list(call.args) + [k.value for k in call.keywords]):
        # a method of the wrapper, or a function that is handed the wrapper: may move budget / position / buffer
        env.log.append(('selfcall', None, call))
        env.havoc([BUDGET, POS, 'self._buffer'], 'after ' + short(call, 30))
    return None


def _is_body_get(call) -> bool:
    """`<x>.get('body', b'')`: the default is the empty bytes constant."""
    return (isinstance(call, ast.Call) and isinstance(call.func, ast.Attribute) and call.func.attr == 'get' and len(call.args) == 2
            and not call.keywords and _const_key(call.args[0]) == 'body' and isinstance(call.args[1], ast.Constant) and call.args[1].value == b'')


def _reads_key(n, key):
    return any(isinstance(x, ast.Subscript) and isinstance(x.ctx, ast.Load) and _const_key(x.slice) == key for x in n.walk())


def _tracker(counter):
    def on_node(env, n, label):
        if label == 'exc':
            return
        if n.kind in ('stmt', 'test') and _reads_key(n, 'body'):
            env.ghost['body_read'] = True
        if n.kind == 'stmt' and isinstance(n.ast, (ast.Assign, ast.AugAssign, ast.AnnAssign)):
            tgts = n.ast.targets if isinstance(n.ast, ast.Assign) else [n.ast.target]
            for t in tgts:
                d = dotted(t)
                if d == BUDGET:
                    env.ghost['last_budget'] = n.ast
                elif d == POS:
                    env.ghost['last_pos'] = n.ast
                elif counter and d == counter:
                    env.ghost['last_counter'] = n.ast
    return on_node


def _handed(env):
    total, last = Lin.const(0), None
    for kind, v, node in env.log:
        if kind in ('hand', 'yield'):
            total = total + env.length(v, short(node, 30))
            last = node
    return total, last


def _receive_loops(f):
    note_receive_aliases(f)
    loops = [w for w in walk_self(f.node) if isinstance(w, ast.While)
             and any(is_receive_call(c) for s in w.body for c in walk_self(s))]
    if not loops:
        raise AnchorError('%s: no `while` loop around `await %s()`' % (f.qual, RECEIVE))
    return loops


def _counter(f, lp):
    """The local compared with a parameter in the loop condition (bytes gathered so far vs requested size)."""
    params = set(f.params())
    found = []
    # the loop condition, and the tests of `if ...: break` statements standing directly in the loop body
    # (`while budget > 0 and got < size:` written as `while budget > 0: if got >= size: break`)
    tests = [lp.test] + [s.test for s in lp.body if isinstance(s, ast.If) and not s.orelse and len(s.body) == 1 and isinstance(s.body[0], ast.Break)]
    for c in (x for t in tests for x in walk_self(t)):
        if isinstance(c, ast.Compare) and len(c.ops) == 1:
            a, b = c.left, c.comparators[0]
            for x, y in ((a, b), (b, a)):
                if isinstance(x, ast.Name) and x.id not in params and isinstance(y, ast.Name) and y.id in params:
                    found.append(x.id)
    if len(set(found)) > 1:
        raise UnknownIdiom('%s: several counters in the loop condition' % f.qual)
    return found[0] if found else None


def asgi_loops(run, v: Verdicts, f, mode):
    p = run.project
    require_attrs(p, ASGI, [BUDGET, POS, RECEIVE, 'self._buffer'])
    cfg = cfg_of(f, p)
    run.use_cfg(cfg)
    heads = loop_heads(cfg)
    inl = Inliner(p, asgi_cls(p), lambda h: not _has_receive_call(h))
    for lp in _receive_loops(f):
        hs = [i for i in cfg.nodes_for(lp) if cfg.node(i).kind == 'test' and cfg.node(i).ast is lp.test]
        if len(hs) != 1:
            raise AnchorError('%s: loop head not found' % f.qual)
        head = hs[0]
        hands_on = any(isinstance(x, (ast.Yield, ast.YieldFrom)) or (isinstance(x, ast.Call) and isinstance(x.func, ast.Attribute) and x.func.attr == 'append')
                       for s in lp.body for x in walk_self(s))
        counter = _counter(f, lp)
        header = 'while %s' % unparse(lp.test)
        if mode == 'termination':
            envs = Env().assume(lp.test, True)
            v.note(f, 'loop-condition', 'the receive loop runs only while the budget is positive',
                   bool(envs) and all(e.prove_le(1, e.var(BUDGET)) for e in envs), header,
                   rw='a body whose last event has more_body=True after Content-Length bytes: the loop awaits receive() again and blocks')
            _guard_boundary(v, f, lp, header)
        live = Env()
        live.declare(BUDGET, 'nat')
        if not live.assume(lp.test, True):
            # under the class invariant `budget >= 0` the guard never holds: the loop body is dead code.  The guard itself is
            # judged by the termination rule (R5 'loop-condition' / 'loop-boundary'); there is no path to judge here.
            continue
        n_paths = 0
        inside = nodes_within(cfg, [lp])
        for steps, end in paths_from(cfg, head, heads, local_edges(cfg)):
            if steps[0][1] != 'T':
                continue
            if end in heads and end != head:
                raise UnknownIdiom('%s: nested loop inside the receive loop' % f.qual)
            if _spurious_lookup_error(cfg, steps):
                continue
            # a path that leaves the loop before it receives anything (`if got >= size: break`) is judged up to there
            left = next((i for i, (nid, _l) in enumerate(steps) if nid not in inside), None)
            early_exit = left is not None and not any(is_receive_call(c) for nid, _l in steps[:left] for c in cfg.node(nid).walk())
            if early_exit:
                steps = steps[:left]
            env = seed_module_ints(p, f, _Env(_on_call_inl))
            rem0 = env.declare(BUDGET, 'nat')
            pos0 = env.declare(POS, 'nat')
            for e in run_steps_inl(env, cfg, steps, inl, on_node=_tracker(counter)):
                n_paths += 1
                ev = e.ghost.get('event')
                if ev is None:
                    # a way OUT of the loop taken before anything is received (`if got >= size: break`): no event, nothing
                    # to conserve -- provided the path really does nothing (no store to budget / position, nothing handed on)
                    if early_exit and not e.log and Env.same(e.eval(_BUDGET_E), rem0) and Env.same(e.eval(_POS_E), pos0):
                        continue
                    raise UnknownIdiom('%s: a loop-body path without `await %s()`' % (f.qual, RECEIVE))
                calls = [short(n, 40) for k, _v, n in e.log if k == 'selfcall']
                if calls:
                    # (loop-free helpers of the class are looked through; this one could not be)
                    v.unknown('%s: the receive loop hands its accounting to `%s`, which cannot be looked through' % (f.qual, calls[0]))
                    continue
                rem_end = e.eval(_BUDGET_E)
                if not isinstance(rem_end, Lin):
                    raise UnknownIdiom('%s: budget is not a number at the end of a loop-body path' % f.qual)
                recv = 'event = await %s()' % RECEIVE
                wit = flow.describe_path(cfg, [s[0] for s in steps])
                if mode == 'termination':
                    more = e.truth.get(('sub', ev, 'more_body')) is True
                    v.note(f, 'more_body', 'an event without a truthy more_body (incl. http.disconnect) zeroes the budget',
                           more or e.prove_eq(rem_end, 0), header + ': more_body reset', witness=wit,
                           rw='client disconnects (or sends more_body=False) before Content-Length bytes arrived: the next loop test still sees a positive budget and awaits receive() forever')
                    continue
                lc = Lin.atom(('len', ('sub', ev, 'body')))
                body_read = e.ghost.get('body_read', False)
                got0, last = _handed(e)
                if not body_read and _bodyless_event(v, f, cfg, steps, e, wit) is False:
                    continue            # the body is obtained in a way that is not read: nothing is concluded from this path
                pos_end = e.eval(_POS_E)
                if not isinstance(pos_end, Lin):
                    raise UnknownIdiom('%s: the position is not a number at the end of a loop-body path' % f.qual)
                delta0 = (e.eval(ast.Name(counter, ast.Load())) - e.var(counter)) if counter else None
                pcons = e.ghost.get('last_pos', recv)
                rw_pos = ('Content-Length 5, a 2-byte first event with more_body=True, then a 10-byte event: after %s() tell() is past '
                          'Content-Length although only 5 bytes of body exist for the application' % f.name)
                # the event either fits the budget or it does not: under each of the two facts every min()/max() over the
                # event length and the budget is a plain linear form
                for c in _fit_cases(e, lc, rem0):
                    rem_c, got, dpos = _resolve(c, rem_end), _resolve(c, got0), _resolve(c, pos_end - pos0)
                    expected = c.minmax('min', [lc, rem0]) if body_read else Lin.const(0)
                    if hands_on:
                        ok = c.prove_eq(got, expected)
                        if not ok and (got.tainted() or expected.tainted()):
                            v.unknown('%s: %s' % (f.qual, '; '.join(e.notes[:2])))
                        else:
                            v.note(f, 'handed-on', 'bytes handed on per event have length min(len(body), budget)', ok,
                                   last if last is not None else recv,
                                   'bytes handed on have length %r, expected %r' % (got, expected), wit,
                                   'an event whose body is longer than the remaining Content-Length budget')
                    exact = c.prove_eq(rem_c, rem0 - expected) or c.prove_eq(rem_c, 0)
                    if not exact and c.prove_le(rem_c, rem0 - expected):
                        # over-deduction is harmless iff a negative budget ends the loop and is normalised to 0 afterwards
                        neg = Env()
                        neg.add_le(neg.var(BUDGET), -1)
                        exact = not neg.assume(lp.test, True) and _normalised_after(cfg, head)
                    v.note(f, 'budget', 'the budget decreases by exactly the bytes taken, or is zeroed', exact,
                           e.ghost.get('last_budget', recv), 'budget after the event is %r, expected %r or 0' % (rem_c, rem0 - expected), wit,
                           'a second read after this one is allowed to take more (or fewer) bytes than Content-Length leaves')
                    if counter:
                        delta = _resolve(c, delta0)
                        v.note(f, 'available-counter', '`%s` grows by exactly the bytes handed on' % counter, c.prove_eq(delta, got),
                               e.ghost.get('last_counter', last if last is not None else recv),
                               '`%s` grows by %r while %r bytes were buffered' % (counter, delta, got), wit,
                               'Content-Length 10, one 20-byte event, read(3): the loop does not see the buffered bytes / returns more than size')
                    if not hands_on:
                        # what is discarded of an event is what read()/readall()/iteration would have handed on: min(len(body), budget).
                        # (the normalisation of the BUDGET after the loop says nothing about the position: it is never normalised)
                        ok = c.prove_eq(dpos, expected)
                        if not ok and (dpos - expected).tainted():
                            v.unknown('%s: %s' % (f.qual, '; '.join(e.notes[:2]) or 'position advance %r not understood' % (dpos,)))
                        else:
                            v.note(f, 'position', 'the position advances by exactly the bytes of the event that the budget admits, min(len(body), budget)', ok,
                                   pcons, 'position advances by %r for a %r-byte event with a budget of %r (expected %r)' % (dpos, lc, rem0, expected), wit,
                                   rw_pos)
                    _within_budget(v, f, c, ev, dpos, rem0, rem_c, pcons, wit, rw_pos)
        if n_paths == 0:
            raise UnknownIdiom('%s: no feasible path through the receive loop' % f.qual)


def _alternatives(t, v):
    """Alternative sets of (atomic test, truth value): `t` evaluates to `v` iff every atom of one alternative has its value."""
    if isinstance(t, ast.UnaryOp) and isinstance(t.op, ast.Not):
        return _alternatives(t.operand, not v)
    if isinstance(t, ast.BoolOp):
        parts = [_alternatives(x, v) for x in t.values]
        if isinstance(t.op, ast.And) == v:
            out = [[]]
            for alts in parts:
                out = [g + h for g in out for h in alts]
            return out
        return [g for alts in parts for g in alts]
    return [[(t, v)]]


def _mentions_budget(e) -> bool:
    return any(isinstance(x, ast.Attribute) and dotted(x) == BUDGET for x in walk_self(e))


def _guard_boundary(v: Verdicts, f, lp, header):
    """The guard of a receive loop has its boundary exactly at `budget > 0`.  The budget is a non-negative integer that
    counts the declared bytes still to be received, so (with the T side, 'runs only while the budget is positive')
    the loop may STOP for a reason that only looks at the budget only when the budget is 0: a guard that is false for
    some budget >= 1 (`> 1`, `< 0`, `>= 2`) leaves declared bytes unreceived while the operation reports them consumed /
    end-of-stream.  Decided per way the guard can come out false: the budget atoms of that alternative, assumed over
    the sign partition budget >= 0, must prove budget == 0; an alternative with another atom (enough bytes gathered, ...)
    is a different reason to stop and is not judged here.
    Witness: Content-Length 3, events b'ab' + b'c', exhaust(): the event carrying the last byte is never received."""
    what = 'the receive loop stops for lack of budget only when the budget is 0 (every declared byte is waited for)'
    rw = ('Content-Length 3 delivered as b"ab" + b"c": %s() ends with a positive budget, the last event is never received, '
          'tell() stays short and the unread event is left on receive()' % f.name)
    for g in _alternatives(lp.test, False):
        bud = [(a, t) for a, t in g if _mentions_budget(a)]
        if not bud:
            continue
        pure = len(bud) == len(g)
        envs = [Env()]
        envs[0].declare(BUDGET, 'nat')
        for a, t in bud:
            envs = [e2 for e1 in envs for e2 in e1.assume(a, t)]
        for e in envs:
            b = e.var(BUDGET)
            if e.prove_le(b, 0):
                v.note(f, 'loop-boundary', what, True)
            elif pure and all(_plain_budget_atom(a) for a, _t in bud) and e.fork().add_le(1, b):
                v.note(f, 'loop-boundary', what, False, header,
                       'the guard `%s` is false for some budget >= 1: the loop ends although declared bytes have not been received'
                       % unparse(lp.test), rw=rw)
            else:
                v.unknown('%s: cannot tell for which budgets the guard `%s` ends the loop' % (f.qual, unparse(lp.test)))


def _plain_budget_atom(a) -> bool:
    """The budget itself (truthiness) or one comparison of the budget with an integer constant: read exactly by the evaluator."""
    if dotted(a) == BUDGET:
        return True
    if isinstance(a, ast.Compare) and len(a.ops) == 1 and isinstance(a.ops[0], (ast.Lt, ast.LtE, ast.Gt, ast.GtE, ast.Eq, ast.NotEq)):
        x, y = a.left, a.comparators[0]
        isint = lambda z: isinstance(z, ast.Constant) and isinstance(z.value, int) and not isinstance(z.value, bool)
        return (dotted(x) == BUDGET and isint(y)) or (dotted(y) == BUDGET and isint(x))
    return False


DISCONNECT = 'http.disconnect'


REQUEST = 'http.request'
_FLIP = {ast.Eq: ast.NotEq, ast.NotEq: ast.Eq}


def _is_type_compare(a, ops):
    """`<event>['type'] <op> 'http.disconnect'` (either order) with op among `ops`.  The receive channel of an HTTP scope
    carries exactly two event types (ASGI HTTP spec: http.request, http.disconnect), so `<event>['type'] != 'http.request'`
    reads as `== 'http.disconnect'` and vice versa."""
    if not (isinstance(a, ast.Compare) and len(a.ops) == 1 and isinstance(a.ops[0], (ast.Eq, ast.NotEq))):
        return False
    x, y = a.left, a.comparators[0]
    for s, c in ((x, y), (y, x)):
        if isinstance(s, ast.Subscript) and _const_key(s.slice) == 'type' and isinstance(c, ast.Constant):
            if c.value == DISCONNECT:
                return isinstance(a.ops[0], ops)
            if c.value == REQUEST:
                return issubclass(_FLIP[type(a.ops[0])], ops)
    return False


def _bodyless_event(v: Verdicts, f, cfg, steps, e, wit):
    """A loop-body path that does not read the received event's 'body' treats the event as carrying no data.  That is
    right for exactly two kinds of event: one without a 'body' key (the path leaves the read of event['body'] through the
    KeyError handler, or a `'body' in event` test came out false) and a disconnect (`event['type'] == 'http.disconnect'`
    is a fact on the path).  Any other path drops the body of an ordinary http.request event: the bytes are neither handed
    on nor counted, and a reset of the budget on such a path ends the stream early.
    Witness: Content-Length 6 as b'ab' + b'cd' + b'ef', exhaust(): returns after the second event, tell() == 2."""
    what = "an event's body is left unread only when the event is a disconnect or has no 'body' key"
    keyless = disconnect = False
    other = None
    for (a, l), (b, _l2) in zip(steps, steps[1:] + [(None, '')]):
        n = cfg.node(a)
        if l == 'exc' and b is not None and n.kind in ('stmt', 'test') and _reads_key(n, 'body'):
            h = cfg.node(b)
            if h.kind == 'handler' and isinstance(h.ast, ast.ExceptHandler):
                names = [None] if h.ast.type is None else [dotted(t) for t in (h.ast.type.elts if isinstance(h.ast.type, ast.Tuple) else [h.ast.type])]
                if any(x in _CATCHES_KEYERROR for x in names):
                    keyless = True
        if n.kind == 'test' and l in ('T', 'F'):
            truth = l == 'T'
            if implied(n.ast, truth, lambda x: _is_type_compare(x, (ast.Eq,))) is True or \
                    implied(n.ast, truth, lambda x: _is_type_compare(x, (ast.NotEq,))) is False:
                disconnect = True
            elif implied(n.ast, truth, lambda x: isinstance(x, ast.Compare) and len(x.ops) == 1 and isinstance(x.ops[0], ast.In)
                         and _const_key(x.left) == 'body') is False:
                keyless = True
            elif implied(n.ast, truth, lambda x: _is_type_compare(x, (ast.Eq,))) is False or \
                    implied(n.ast, truth, lambda x: _is_type_compare(x, (ast.NotEq,))) is True:
                other = n.ast
        if n.kind in ('stmt', 'test') and any(isinstance(c, ast.Call) and isinstance(c.func, ast.Attribute) and c.func.attr in ('get', 'pop')
                                               and c.args and _const_key(c.args[0]) == 'body' for c in n.walk()):
            v.unknown("%s: the event's body is obtained through `%s`" % (f.qual, short(n.ast, 40)))
            return False
    if keyless or disconnect:
        v.note(f, 'event classification', what, True)
        return True
    cons = ('if ' + unparse(other)) if other is not None else 'event = await %s()' % RECEIVE
    v.note(f, 'event classification', what, False, cons,
           "a path through the receive loop leaves event['body'] unread although nothing on it says that the event is a disconnect "
           "or lacks the 'body' key%s" % (' (the path knows: not a disconnect)' if other is not None else ''), wit,
           'Content-Length 6 delivered as b"ab" + b"cd" + b"ef": %s() treats the second http.request event as the end of the body; '
           'its bytes are not counted and the third event stays unread' % f.name)


_LOOKUP_ERRORS = {'KeyError', 'IndexError', 'LookupError'}
_TOTAL_BUILTINS = {'len', 'min', 'max', 'bool'}


def _spurious_lookup_error(cfg, steps) -> bool:
    """Does the path leave a statement that cannot raise a lookup error (no subscript, no await, no call but len/min/max/bool)
    through an exceptional edge into a handler that catches nothing but lookup errors?  (`try: chunk = event['body'][:n];
    num = len(chunk)  except KeyError: num = 0` -- the CFG has an edge from the second statement to the handler.)"""
    for (a, l), (b, _l2) in zip(steps, steps[1:]):
        if l != 'exc':
            continue
        n, h = cfg.node(a), cfg.node(b)
        if n.kind != 'stmt' or h.kind != 'handler' or isinstance(n.ast, ast.Raise) or not isinstance(h.ast, ast.ExceptHandler) or h.ast.type is None:
            continue
        types = h.ast.type.elts if isinstance(h.ast.type, ast.Tuple) else [h.ast.type]
        if not all(dotted(t) in _LOOKUP_ERRORS for t in types):
            continue
        if not any(isinstance(x, (ast.Subscript, ast.Await, ast.Yield, ast.YieldFrom)) or
                   (isinstance(x, ast.Call) and not (isinstance(x.func, ast.Name) and x.func.id in _TOTAL_BUILTINS)) for x in n.walk()):
            return True
    return False


def _fit_cases(e, lc, rem0):
    """The path state split on whether the event fits the budget (infeasible halves dropped)."""
    out = []
    a = e.fork()
    if a.add_le(lc, rem0):
        out.append(a)
    b = e.fork()
    if b.add_le(rem0 + Lin.const(1), lc):
        out.append(b)
    return out


def _resolve(env, l, depth=3):
    """`l` with every min()/max() atom that the facts of `env` decide replaced by the argument it equals."""
    if not isinstance(l, Lin) or depth <= 0:
        return l
    out = Lin.const(l.c)
    for a, k in l.t.items():
        term = Lin.atom(a)
        if a[0] in ('min', 'max') and all(isinstance(x, Lin) for x in a[1]):
            args = [_resolve(env, x, depth - 1) for x in a[1]]
            term = env.minmax(a[0], args)
        out = out + term.scale(k)
    return out


def _free_input(l: Lin, ev) -> bool:
    """Is this a plain linear form over the length of the received event's body and the budget at the loop head
    (two quantities nothing relates unless a path fact does)?"""
    return all(a == ('len', ('sub', ev, 'body')) or a == ('v', BUDGET) for a in l.atoms())


def _within_budget(v, f, e, ev, dpos, rem0, rem_end, cons, wit, rw):
    """Per event, `_pos + max(budget, 0)` does not grow: whatever a path adds to the position (a quantity derived from
    the RECEIVED event) is covered by what it takes off the budget, and never exceeds the budget it started with --
    hence `_pos <= Content-Length` by induction.  Proved from the path facts (a `min`, an `if n > rem: n = rem`
    clamp, a truncated chunk); violated when the facts prove the excess, or when the excess is a form over the event
    length and the budget that no fact on the path bounds."""
    if Env.same(dpos, 0):
        return              # the path does not move the position (read()/readall(): moved once, by len(data), after the loop)
    what = 'the position never advances by more than the budget admits (tell() <= Content-Length)'
    cases = []
    a = e.fork()
    if a.add_le(0, rem_end):
        cases.append((a, dpos + rem_end - rem0))
    b = e.fork()
    if b.add_le(rem_end, -1):
        cases.append((b, dpos - rem0))          # (a negative budget ends the loop; judged by the 'budget' obligation)
    for c, excess in cases:
        if c.prove_le(excess, 0):
            v.note(f, 'position', what, True)
        elif excess.tainted():
            v.unknown('%s: %s' % (f.qual, '; '.join(e.notes[:2]) or 'position advance %r not understood' % (dpos,)))
        elif c.prove_le(1, excess) or (_free_input(excess, ev) and c.fork().add_le(1, excess)):
            v.note(f, 'position', what, False, cons,
                   'the position advances by %r for an event with a budget of %r left (budget afterwards %r): nothing on the path bounds '
                   'the advance by the budget' % (dpos, rem0, rem_end), wit, rw)
        else:
            v.unknown('%s: cannot bound the position advance %r by the budget %r' % (f.qual, dpos, rem0))


def _normalised_after(cfg, head) -> bool:
    """Every normal path from the loop's exit edge to the function exit zeroes the budget."""
    zero = [n.id for n in cfg.live_nodes() if n.kind == 'stmt' and isinstance(n.ast, ast.Assign)
            and any(dotted(t) == BUDGET for t in n.ast.targets) and isinstance(n.ast.value, ast.Constant) and n.ast.value.value == 0]
    starts = [y for (y, l) in cfg.succ[head] if l == 'F']
    return bool(starts) and flow.find_path(cfg, starts, [cfg.exit], avoid_nodes=zero, edge_filter=flow.no_exc) is None


def _buffer_at_yield(v: Verdicts, f, e, yval, buf_k, ystmt, wit):
    """A chunk that is served FROM the receive buffer has left the buffer when it is yielded.  The generator is suspended at
    the `yield`; a consumer that stops iterating never resumes it, so a `self._buffer = b''` placed behind the `yield` is
    lost and the next read()/readall()/exhaust() delivers (or counts) the same bytes again.
    Decided on the state at the suspension point: the buffer still has the value it had at the start of the segment AND the
    yielded value is that very value (directly, through a local, or a copy / full slice of it: its length is a form over
    len(buffer)) AND no fact on the path says the buffer is empty.
    Witness: `async for chunk in req.stream: break` then `await req.stream.read()`: the first chunk is returned twice."""
    what = 'a chunk served from the receive buffer is no longer in the buffer when it is yielded'
    blen = ('len', _BUF_ATOM)
    untouched = isinstance(buf_k, Lin) and Env.same(buf_k, Lin.atom(_BUF_ATOM))
    if isinstance(yval, Lin):
        from_buffer = yval.lone() == _BUF_ATOM
    elif isinstance(yval, Seq):
        from_buffer = blen in yval.length.atoms()
    else:
        from_buffer = False
    if not from_buffer:
        return
    if not untouched or e.prove_eq(Lin.atom(blen), 0):
        v.note(f, 'buffer at yield', what, True)
        return
    v.note(f, 'buffer at yield', what, False, ystmt,
           'at `%s` %s still holds the very bytes that are being handed out: the statement that clears it is only reached when the '
           'generator is resumed' % (ystmt, BUFFER), wit,
           'async for chunk in req.stream: break -- the generator is closed at the yield with the buffer intact; a following '
           'read()/readall() returns the first chunk again and exhaust() counts it twice (tell() > body length, eof stays False)')


def asgi_positions(run, v: Verdicts, f):
    """_pos advances by exactly the length of what each segment yields / returns -- and, in a generator, the accounting
    for a chunk is complete BEFORE the chunk is yielded: when the consumer holds chunk k (the generator is suspended at
    the `yield`, and stays so for good if the consumer leaves its loop), the position equals the bytes handed out so far
    and the budget no longer contains the bytes of a received chunk.  An update that is only reachable by resuming the
    generator is lost on `break` / `aclose()`.
    Witness: `async for chunk in req.stream: assert req.stream.tell() == seen + len(chunk)`; `break` after the first chunk."""
    cfg = cfg_of(f, run.project)
    note_receive_aliases(f)
    produces = any(isinstance(x, (ast.Yield, ast.YieldFrom)) or (isinstance(x, ast.Return) and x.value is not None) for x in walk_self(f.node))
    if not produces:
        return
    track = _tracker(None)

    def on_node(env, n, label):
        # state in which the generator was suspended at its latest `yield`: nothing runs between a `yield` statement and the
        # node that follows it, so the state seen on arrival there is the state the consumer observes while it holds the chunk
        k = sum(1 for kind, _v, _n in env.log if kind == 'yield')
        if k > env.ghost.get('ysnap_n', 0):
            env.ghost['ysnap_n'] = k
            env.ghost['ysnaps'] = env.ghost.get('ysnaps', ()) + ((k, env.eval(_POS_E), env.eval(_BUDGET_E), env.eval(_BUF_E)),)
        track(env, n, label)

    for start, steps, end in segments(cfg):
        env = seed_module_ints(run.project, f, _Env(_on_call))
        pos0 = env.declare(POS, 'nat')
        rem0 = env.declare(BUDGET, 'nat')
        for e in run_steps(env, cfg, steps, on_node):
            if any(k == 'selfcall' for k, _v, _n in e.log):
                continue        # delegation: the callee accounts for itself
            out, last = Lin.const(0), None
            yields = []         # (running total of the bytes handed out, yield node)
            yvals = []          # the values yielded
            for kind, val, node in e.log:
                if kind == 'yield' or (kind == 'return' and val is not NONE):
                    out = out + e.length(val, short(node, 30))
                    last = node
                    if kind == 'yield':
                        yields.append((out, node))
                        yvals.append(val)
            dpos = e.eval(_POS_E) - pos0
            ok = isinstance(dpos, Lin) and e.prove_eq(dpos, out)
            cons = e.ghost.get('last_pos', last if last is not None else f.name)
            wit = flow.describe_path(cfg, [s[0] for s in steps])
            if not ok and (not isinstance(dpos, Lin) or (dpos - out).tainted()):
                v.unknown('%s: %s' % (f.qual, '; '.join(e.notes[:2])))
                continue
            v.note(f, 'position', 'tell() advances by exactly the length of the data yielded/returned', ok, cons,
                   'position advances by %r while %r bytes are yielded/returned' % (dpos, out), wit,
                   'tell() disagrees with the number of bytes the application received')
            if not yields:
                continue
            # ---- the state at each suspension point
            snaps = list(e.ghost.get('ysnaps', ()))
            if len(snaps) < len(yields):
                snaps.append((len(yields), e.eval(_POS_E), e.eval(_BUDGET_E), e.eval(_BUF_E)))     # suspended at the end of the segment
            received = e.ghost.get('event') is not None
            for (k, pos_k, rem_k, buf_k) in snaps:
                out_k, ynode = yields[k - 1]
                ystmt = 'yield ' + unparse(ynode.value) if getattr(ynode, 'value', None) is not None else unparse(ynode)
                _buffer_at_yield(v, f, e, yvals[k - 1], buf_k, ystmt, wit)
                what = 'the position accounts for a chunk before the chunk is yielded (tell() is right while the consumer holds it and after it leaves the loop)'
                if not isinstance(pos_k, Lin) or (pos_k - pos0 - out_k).tainted():
                    v.unknown('%s: position at `%s` not understood: %s' % (f.qual, ystmt, '; '.join(e.notes[:2])))
                elif e.prove_eq(pos_k - pos0, out_k):
                    v.note(f, 'position at yield', what, True)
                elif ok:
                    # the segment as a whole is right: the store that accounts for this chunk sits behind the `yield`
                    v.note(f, 'position at yield', what, False, ystmt,
                           'at `%s` the position has advanced by %r while %r bytes have been handed out: the update for this chunk is only '
                           'performed when the generator is resumed' % (ystmt, pos_k - pos0, out_k), wit,
                           'async for chunk in req.stream: tell() lags by the chunk being held; after `break` (or aclose()) the generator is '
                           'closed at the yield and tell() stays short for the rest of the request')
                # (not ok: the segment total is already reported above)
                if not received:
                    continue        # a chunk served from the receive buffer: the budget only counts what is still to be received
                whatb = 'the budget no longer contains a received chunk when that chunk is yielded'
                if not isinstance(rem_k, Lin):
                    v.unknown('%s: budget at `%s` is not a number' % (f.qual, ystmt))
                    continue
                cases = _fit_cases(e, Lin.atom(('len', ('sub', e.ghost['event'], 'body'))), rem0)
                if cases and all(c.prove_eq(_resolve(c, rem_k), _resolve(c, rem0 - out_k)) or c.prove_eq(_resolve(c, rem_k), 0)
                                 or c.prove_le(_resolve(c, rem_k), _resolve(c, rem0 - out_k)) for c in cases):
                    v.note(f, 'budget at yield', whatb, True)
                elif Env.same(rem_k, rem0) and not e.prove_eq(out_k, 0):
                    v.note(f, 'budget at yield', whatb, False, ystmt,
                           'at `%s` the budget still has the value it had when the event was received (%r) although %r bytes of that event '
                           'are being handed out: the deduction is only performed when the generator is resumed' % (ystmt, rem_k, out_k), wit,
                           'the consumer leaves `async for chunk in req.stream` after a chunk: the budget still counts that chunk, a following '
                           'read()/exhaust() takes up to Content-Length further bytes from receive()')
                else:
                    v.unknown('%s: cannot relate the budget %r at `%s` to the bytes handed out %r' % (f.qual, rem_k, ystmt, out_k))


# ---------------------------------------------------------------------------
# R5: key protection, constructor
# ---------------------------------------------------------------------------

_CATCHES_KEYERROR = {None, 'KeyError', 'LookupError', 'Exception', 'BaseException'}


def _in_test(t, key, base_txt, truth=True):
    """Does test `t` coming out `truth` imply `key in base`?  Read: `key in base` / `key not in base`, `not`, a
    conjunction that came out true (every operand is true), a disjunction that came out false (every operand is false).
    (k2-c07-1: `'more_body' not in event or not event['more_body']` -- the subscript is evaluated only when the first
    operand is false.)"""
    if isinstance(t, ast.UnaryOp) and isinstance(t.op, ast.Not):
        return _in_test(t.operand, key, base_txt, not truth)
    if isinstance(t, ast.Compare) and len(t.ops) == 1 and isinstance(t.ops[0], (ast.In, ast.NotIn)):
        return isinstance(t.ops[0], ast.In) == truth and _const_key(t.left) == key and unparse(t.comparators[0]) == base_txt
    if isinstance(t, ast.BoolOp) and isinstance(t.op, ast.And) == truth:
        return any(_in_test(x, key, base_txt, truth) for x in t.values)
    return False


def asgi_keys(run, v: Verdicts, f):
    parent = enclosing_map(f.node)
    for sub in walk_self(f.node):
        if not (isinstance(sub, ast.Subscript) and isinstance(sub.ctx, ast.Load) and _const_key(sub.slice) in ('body', 'more_body')):
            continue
        key, base = _const_key(sub.slice), unparse(sub.value)
        ok, child = False, sub
        for a in ancestors(sub, parent):
            if isinstance(a, ast.Try) and any(child is s for s in a.body):
                for h in a.handlers:
                    names = [None] if h.type is None else [dotted(t) for t in (h.type.elts if isinstance(h.type, ast.Tuple) else [h.type])]
                    if any(n in _CATCHES_KEYERROR for n in names):
                        ok = True
            elif isinstance(a, ast.BoolOp):
                # an operand is evaluated only when every earlier one was true (`and`) / false (`or`)
                idx = [i for i, x in enumerate(a.values) if x is child]
                if idx and any(_in_test(x, key, base, isinstance(a.op, ast.And)) for x in a.values[:idx[0]]):
                    ok = True
            elif isinstance(a, (ast.If, ast.While)) and any(child is s for s in a.body) and _in_test(a.test, key, base, True):
                ok = True
            elif isinstance(a, ast.If) and any(child is s for s in a.orelse) and _in_test(a.test, key, base, False):
                ok = True
            elif isinstance(a, ast.IfExp) and child is a.body and _in_test(a.test, key, base, True):
                ok = True
            elif isinstance(a, ast.IfExp) and child is a.orelse and _in_test(a.test, key, base, False):
                ok = True
            child = a
        v.note(f, 'optional key %s @%s' % (key, unparse(sub)), "the optional event key '%s' is read only under KeyError protection or a membership test" % key,
               ok, sub, rw="an event without '%s' (legal per the ASGI spec) raises KeyError out of the stream operation" % key)


_GROW = {'append', 'extend', 'insert'}
_SHRINK = {'pop', 'remove', 'clear'}
_LIST_READERS = {'len', 'bool', 'list', 'tuple', 'sum', 'iter', 'reversed', 'sorted', 'enumerate'}


def _len_cell(test, name, n):
    """Three-valued value of a guard when `len(<name>) == n`: True / False / None (not decided by the length alone)."""
    def is_len(e):
        return isinstance(e, ast.Call) and isinstance(e.func, ast.Name) and e.func.id == 'len' and len(e.args) == 1 and not e.keywords \
            and isinstance(e.args[0], ast.Name) and e.args[0].id == name

    def num(e):
        if is_len(e):
            return n
        if isinstance(e, ast.Constant) and isinstance(e.value, int) and not isinstance(e.value, bool):
            return e.value
        return None

    if isinstance(test, ast.UnaryOp) and isinstance(test.op, ast.Not):
        r = _len_cell(test.operand, name, n)
        return None if r is None else not r
    if isinstance(test, ast.BoolOp):
        rs = [_len_cell(x, name, n) for x in test.values]
        if isinstance(test.op, ast.And):
            return False if any(r is False for r in rs) else (True if all(r is True for r in rs) else None)
        return True if any(r is True for r in rs) else (False if all(r is False for r in rs) else None)
    if isinstance(test, ast.Name) and test.id == name:
        return n > 0
    if is_len(test):
        return n > 0
    if isinstance(test, ast.Compare) and len(test.ops) == 1:
        a, b = num(test.left), num(test.comparators[0])
        if a is None or b is None or not (is_len(test.left) or is_len(test.comparators[0])):
            return None
        op = test.ops[0]
        table = {ast.Eq: a == b, ast.NotEq: a != b, ast.Lt: a < b, ast.LtE: a <= b, ast.Gt: a > b, ast.GtE: a >= b}
        return table.get(type(op))
    return None


def asgi_indexing(run, v: Verdicts, f):
    """`chunks[k]` on a list the method builds itself is evaluated only where the guards around it prove `len(chunks) > k`.
    The receive loops gather nothing when the client disconnects (or sends an event without 'body') before any data: the
    list is then EMPTY, and the operation must return b'' ("a disconnect ends the stream at the bytes received so far"),
    not raise IndexError.  Abstract evaluation of the guards (the conditional expression / if / and / or around the
    subscript) over the length cells 0..k; a violation needs a cell the guards admit, a list display of exactly that
    length, and a path from it to the subscript that passes no append/extend/insert.
    Witness: empty buffer, first event b'' with more_body=True, then http.disconnect: read()/readall() raise IndexError."""
    p = run.project
    parent = enclosing_map(f.node)
    displays = {}
    for s in walk_self(f.node):
        if isinstance(s, ast.Assign) and len(s.targets) == 1 and isinstance(s.targets[0], ast.Name):
            val = s.value
            if isinstance(val, ast.List) and not any(isinstance(x, ast.Starred) for x in val.elts):
                displays.setdefault(s.targets[0].id, []).append((s, len(val.elts)))
            elif isinstance(val, ast.Call) and isinstance(val.func, ast.Name) and val.func.id == 'list' and not val.args and not val.keywords:
                displays.setdefault(s.targets[0].id, []).append((s, 0))
    if not displays:
        return
    cfg = None
    what = 'a constant index into a list built by the method is guarded by a proof that the list is long enough'
    for sub in walk_self(f.node):
        if not (isinstance(sub, ast.Subscript) and isinstance(sub.ctx, ast.Load) and isinstance(sub.value, ast.Name) and sub.value.id in displays):
            continue
        k = sub.slice
        if isinstance(k, ast.UnaryOp) and isinstance(k.op, ast.USub) and isinstance(k.operand, ast.Constant) and isinstance(k.operand.value, int):
            need = k.operand.value
        elif isinstance(k, ast.Constant) and isinstance(k.value, int) and not isinstance(k.value, bool):
            need = k.value + 1
        else:
            continue                # a slice / computed index: not this clause
        name = sub.value.id
        # every binding of the name is a list display (else its length is not known to the rule)
        other = [x for x in walk_self(f.node) if isinstance(x, ast.Name) and x.id == name and isinstance(x.ctx, (ast.Store, ast.Del))
                 and not any(parent.get(id(x)) is s for s, _m in displays[name])]
        shrinks = [c for c in walk_self(f.node) if isinstance(c, ast.Call) and isinstance(c.func, ast.Attribute) and c.func.attr in _SHRINK
                   and isinstance(c.func.value, ast.Name) and c.func.value.id == name]
        escapes = [c for c in walk_self(f.node) if isinstance(c, ast.Call) and any(isinstance(a, ast.Name) and a.id == name for a in c.args)
                   and not (isinstance(c.func, ast.Name) and c.func.id in _LIST_READERS) and not (isinstance(c.func, ast.Attribute) and c.func.attr == 'join')]
        if other or shrinks or escapes:
            v.unknown('%s: the length of `%s` at `%s` cannot be followed (%s)' % (f.qual, name, unparse(sub), short((other or shrinks or escapes)[0], 40)))
            continue
        # the guards around the subscript
        guards, child = [], sub
        for a in ancestors(sub, parent):
            if isinstance(a, ast.IfExp) and child is not a.test:
                guards.append((a.test, child is a.body))
            elif isinstance(a, (ast.If, ast.While)) and child is not a.test:
                guards.append((a.test, any(child is b for b in a.body)))
            elif isinstance(a, ast.BoolOp):
                i = next(j for j, x in enumerate(a.values) if x is child)
                guards.extend((x, isinstance(a.op, ast.And)) for x in a.values[:i])
            child = a

        def admitted(n):
            rs = []
            for t, want in guards:
                r = _len_cell(t, name, n)
                rs.append(None if r is None else (r == want))
            return False if any(r is False for r in rs) else (True if all(r is True for r in rs) else None)

        cells = {n: admitted(n) for n in range(need)}
        if all(r is False for r in cells.values()):
            v.note(f, 'index %s' % unparse(sub), what, True)
            continue
        if cfg is None:
            cfg = cfg_of(f, p)
            run.use_cfg(cfg)
        use = [n.id for n in cfg.live_nodes() if n.kind in ('stmt', 'test') and any(y is sub for y in n.walk())]
        grows = {n.id for n in cfg.live_nodes() if n.kind in ('stmt', 'test') and any(
            (isinstance(c, ast.Call) and isinstance(c.func, ast.Attribute) and c.func.attr in _GROW and isinstance(c.func.value, ast.Name) and c.func.value.id == name)
            or (isinstance(c, ast.AugAssign) and isinstance(c.target, ast.Name) and c.target.id == name) for c in n.walk())}
        defs = {i for s, _m in displays[name] for i in cfg.nodes_for(s)}
        found = None
        growth_free = False
        for s, m in displays[name]:
            if m >= need:
                continue
            for d in cfg.nodes_for(s):
                starts = [y for (y, l) in cfg.succ[d] if l != 'exc']
                path = flow.find_path(cfg, starts, use, avoid_nodes=(grows | defs) - set(use),
                                      edge_filter=lambda a, b, l: l != 'exc' or cfg.node(b).kind == 'handler')
                if path is None:
                    continue
                growth_free = True
                if cells.get(m) is True and found is None:
                    found = (s, m, [d] + path)
        if found is not None:
            s, m, path = found
            v.note(f, 'index %s' % unparse(sub), what, False, sub,
                   '`%s` is evaluated when len(%s) == %d (the guards around it admit that length) and `%s` reaches it without any '
                   'append: IndexError' % (unparse(sub), name, m, short(s, 40)), flow.describe_path(cfg, path),
                   'empty receive buffer, a first event b"" with more_body=True, then http.disconnect (or an event without "body"): '
                   '%s() raises IndexError instead of returning b"" at the bytes received so far' % f.name)
        elif not growth_free and need == 1:
            v.note(f, 'index %s' % unparse(sub), what, True)       # every path from a display grows the list first
        else:
            v.unknown('%s: cannot tell whether `%s` has more than %d element(s) at `%s`' % (f.qual, name, need - 1, unparse(sub)))


def asgi_constructor(run, v: Verdicts):
    p = run.project
    f = p.func(ASGI + '.__init__')
    require_attrs(p, ASGI, [BUDGET, POS, RECEIVE, 'self._buffer'])
    cfg = cfg_of(f, p)
    run.use_cfg(cfg)
    params = f.params()
    for need in ('first_event', 'content_length'):
        if need not in params:
            raise AnchorError('%s.__init__ has no parameter %s' % (ASGI, need))
    asgi_keys(run, v, f)
    run.assume('C07 R5: content_length, when not None, is a non-negative integer (Request.content_length rejects negatives)')
    n = 0
    for steps, end in paths_from(cfg, cfg.entry, loop_heads(cfg), local_edges(cfg)):
        if end != cfg.exit:
            raise UnknownIdiom('%s.__init__: loops are not expected' % ASGI)
        env = seed_module_ints(p, f, DelEnv(_on_call))
        cl = env.var('content_length')
        env.add_le(0, cl)
        fe = ('v', 'first_event')
        env.kind[('sub', fe, 'body')] = 'seq'
        for e in run_steps(env, cfg, steps):
            n += 1
            rem_end = e.eval(_BUDGET_E)
            buf = e.eval(ast.parse('self._buffer', mode='eval').body)
            wit = flow.describe_path(cfg, [s[0] for s in steps])
            if not isinstance(rem_end, Lin) or dotted(_BUDGET_E) not in e.vars or 'self._buffer' not in e.vars:
                v.note(f, 'initialises', 'the constructor initialises buffer and budget on every path', False, f.name, witness=wit)
                continue
            if e.is_none.get(cl.lone()) is False:
                lb = e.length(buf, 'self._buffer')
                v.note(f, 'first-chunk clamp', 'the preloaded first chunk is clamped to Content-Length and the budget is what remains',
                       e.prove_le(lb, cl) and (e.prove_eq(rem_end, cl - lb) or e.prove_eq(rem_end, 0)),
                       'self._buffer/%s with content_length' % BUDGET.split('.')[1],
                       'buffer length %r, budget %r for Content-Length %r' % (lb, rem_end, cl), wit,
                       'Content-Length 3 and a first event carrying 10 bytes: the stream yields more than 3 bytes')
            if e.truth.get(fe) is True:
                more = e.truth.get(('sub', fe, 'more_body')) is True
                v.note(f, 'first-event more_body', 'a preloaded first event without a truthy more_body leaves no budget',
                       more or e.prove_eq(rem_end, 0), 'first_event: more_body reset',
                       'budget %r after a first event without more_body' % (rem_end,), wit,
                       'a complete single-event body shorter than Content-Length: the first read awaits receive() and blocks')
    if n == 0:
        raise UnknownIdiom('%s.__init__: no feasible path' % ASGI)


def asgi_initial_position(run, v: Verdicts):
    """Nothing has been returned when the constructor finishes, so tell() must start at 0
    (every operation later adds the length of what it returns, preloaded buffer included)."""
    p = run.project
    f = p.func(ASGI + '.__init__')
    require_attrs(p, ASGI, [POS])
    cfg = cfg_of(f, p)
    run.use_cfg(cfg)
    for steps, end in paths_from(cfg, cfg.entry, loop_heads(cfg), local_edges(cfg)):
        if end != cfg.exit:
            raise UnknownIdiom('%s.__init__: loops are not expected' % ASGI)
        env = seed_module_ints(p, f, DelEnv(_on_call))
        env.kind[('sub', ('v', 'first_event'), 'body')] = 'seq'
        for e in run_steps(env, cfg, steps, _tracker(None)):
            pos = e.eval(_POS_E)
            ok = isinstance(pos, Lin) and e.prove_eq(pos, 0)
            v.note(f, 'initial position', 'tell() is 0 after construction (no byte has been returned yet)', ok,
                   e.ghost.get('last_pos', f.name), 'the position starts at %r although nothing has been returned' % (pos,),
                   flow.describe_path(cfg, [s[0] for s in steps]),
                   'a first event carrying b"hello": tell() is 5 before any read and 10 after readall() returned 5 bytes')


# ---------------------------------------------------------------------------
# R4: whatever drains the stream leaves nothing behind
# ---------------------------------------------------------------------------

BUFFER = 'self._buffer'
_BUF_E = ast.parse(BUFFER, mode='eval').body
_BUF_ATOM = ('v', BUFFER)


def _last_decision(cfg, steps, f):
    tests = [cfg.node(i) for i, l in steps if cfg.node(i).kind == 'test' and l in ('T', 'F')]
    if not tests:
        return '%s returns' % f.name
    t = tests[-1]
    return ('while ' if isinstance(t.stmt, ast.While) and t.ast is t.stmt.test else 'if ') + unparse(t.ast)


def asgi_drained(run, v: Verdicts, f):
    """exhaust() / readall() / the body iterator promise that nothing of the body is left when they return normally.
    Data that has been received but not handed out sits in `_buffer`; the budget only counts what is still to be received.
    Every normal return therefore leaves the buffer empty AND the budget at 0, and a method that hands nothing out
    (exhaust) has advanced the position by exactly the buffered bytes it dropped.

    Decided per acyclic segment (entry / loop heads as cut points) with two loop invariants that are inferred, not assumed:
    `the buffer is empty at the loop head` (base: every entry->head segment proves it; step: every head->head segment keeps
    it) and `the budget is >= 0 at the loop head`.  A violation needs positive evidence: a path from the function ENTRY
    on which the field still holds its entry value, with no fact on the path that excludes a non-empty buffer / a positive
    budget.  Anything else that cannot be proved is an unknown idiom."""
    p = run.project
    require_attrs(p, ASGI, [BUDGET, POS, RECEIVE, BUFFER])
    cfg = cfg_of(f, p)
    note_receive_aliases(f)
    run.use_cfg(cfg)
    inl = Inliner(p, asgi_cls(p), lambda h: not _has_receive_call(h))
    heads = set(loop_heads(cfg))
    segs = [(s, st, e) for (s, st, e) in segments(cfg) if e in heads or e == cfg.exit]
    produces = any(isinstance(x, (ast.Yield, ast.YieldFrom)) or (isinstance(x, ast.Return) and x.value is not None) for x in walk_self(f.node))
    blen0 = Lin.atom(('len', _BUF_ATOM))

    def execute(start, steps, nat, inv):
        env = seed_module_ints(p, f, _Env(_on_call_inl))
        env.kind[_BUF_ATOM] = 'seq'
        env.declare(POS, 'nat')
        if start == cfg.entry or nat:
            env.declare(BUDGET, 'nat')      # entry: class invariant (R4 'budget' + R5 constructor); head: inferred below
        if start != cfg.entry and inv:
            env.add_eq(blen0, 0)
        return [e for e in run_steps_inl(env, cfg, steps, inl, on_node=_tracker(None)) if not any(k == 'raise' for k, _v, _n in e.log)]

    def buf_len(e):
        return e.length(e.eval(_BUF_E), BUFFER)

    def untouched(e, expr, name):
        val = e.eval(expr)
        return isinstance(val, Lin) and Env.same(val, Lin.atom(('v', name)))

    # ---- inferred loop invariants
    to_head = [(s, st, e) for (s, st, e) in segs if e in heads]
    nat = bool(to_head) and all(isinstance(e.eval(_BUDGET_E), Lin) and e.prove_le(0, e.eval(_BUDGET_E))
                                for (s, st, _e) in to_head for e in execute(s, st, True, False))
    base = all(e.prove_eq(buf_len(e), 0) for (s, st, _e) in to_head if s == cfg.entry for e in execute(s, st, nat, False))
    inv = base and all(e.prove_eq(buf_len(e), 0) for (s, st, _e) in to_head if s != cfg.entry for e in execute(s, st, nat, True))
    never_after = all(untouched(e, _BUF_E, BUFFER) for (s, st, _e) in segs if s != cfg.entry for e in execute(s, st, nat, False))
    leaves_loop = any(s != cfg.entry and e == cfg.exit for (s, _st, e) in segs)

    w_buf = '%s() returns only with the receive buffer emptied (received data is handed out or discarded, never left behind)' % f.name
    w_bud = '%s() returns only with the budget at 0 (nothing is left to be received)' % f.name
    w_pos = '%s() advances the position by exactly the buffered bytes it drops' % f.name
    rw_buf = ('the whole body arrives in the first event (or a sized read pulled in the final event and returned part of it): after %s() '
              'eof stays False, tell() is short and later reads still return body data' % f.name)
    n = 0
    for (start, steps, end) in segs:
        wit = flow.describe_path(cfg, [s[0] for s in steps])
        cons = _last_decision(cfg, steps, f)
        for e in execute(start, steps, nat, inv):
            if any(k == 'selfcall' for k, _v, _n in e.log):
                v.unknown('%s: delegates to another stream operation; what is left behind cannot be judged here' % f.qual)
                continue
            n += 1
            lb = buf_len(e)
            empty = e.prove_eq(lb, 0)
            from_entry_untouched = start == cfg.entry and untouched(e, _BUF_E, BUFFER) and e.fork().add_le(1, lb)
            if start != cfg.entry and not inv and untouched(e, _BUF_E, BUFFER):
                pass            # judged where the invariant fails to be established (the segment that reaches the loop head)
            elif end == cfg.exit:
                if empty:
                    v.note(f, 'drained: buffer', w_buf, True)
                elif from_entry_untouched:
                    v.note(f, 'drained: buffer', w_buf, False, cons,
                           '%s() can return after `%s` without having touched %s, and nothing on that path says the buffer is empty '
                           '(the budget only counts what is still to be received)' % (f.name, cons, BUFFER), wit, rw_buf)
                else:
                    v.unknown('%s: cannot tell whether %s is empty when the method returns after `%s`' % (f.qual, BUFFER, cons))
            elif not inv:
                # the loop is entered (or re-entered) with a buffer that is not known to be empty
                if empty:
                    pass
                elif from_entry_untouched and never_after and leaves_loop:
                    loop = cfg.node(end)
                    lcons = 'while ' + unparse(loop.ast) if loop.kind == 'test' else unparse(loop.stmt.iter)
                    v.note(f, 'drained: buffer', w_buf, False, lcons,
                           '%s() reaches `%s` (after `%s`) without having touched %s and never touches it afterwards: '
                           'buffered data survives the call' % (f.name, lcons, cons, BUFFER), wit, rw_buf)
                else:
                    v.unknown('%s: cannot tell whether %s is empty when the receive loop is entered after `%s`' % (f.qual, BUFFER, cons))
            if end == cfg.exit:
                bud = e.eval(_BUDGET_E)
                if isinstance(bud, Lin) and e.prove_eq(bud, 0):
                    v.note(f, 'drained: budget', w_bud, True)
                elif start == cfg.entry and isinstance(bud, Lin) and untouched(e, _BUDGET_E, BUDGET) and e.fork().add_le(1, bud):
                    v.note(f, 'drained: budget', w_bud, False, cons,
                           '%s() can return after `%s` with the budget untouched and possibly positive' % (f.name, cons), wit,
                           'part of the body has not been received yet: %s() returns early, eof stays False and the rest of the body is '
                           'delivered to whoever reads next' % f.name)
                elif start != cfg.entry and v.items.get((f.qual, 'budget'), {}).get('fails'):
                    pass            # the loop body's budget update is already reported
                else:
                    v.unknown('%s: cannot tell whether the budget is 0 when the method returns after `%s`' % (f.qual, cons))
            if not produces and e.ghost.get('event') is None:
                dpos = e.eval(_POS_E) - e.var(POS)
                want = blen0 - lb
                ok = isinstance(dpos, Lin) and e.prove_eq(dpos, want)
                if not ok and (not isinstance(dpos, Lin) or (dpos - want).tainted()):
                    v.unknown('%s: %s' % (f.qual, '; '.join(e.notes[:2])))
                else:
                    v.note(f, 'drained: position', w_pos, ok, e.ghost.get('last_pos', '%s with %s' % (POS, BUFFER)),
                           'the position advances by %r while %r buffered bytes are dropped' % (dpos, want), wit,
                           'tell() disagrees with the number of body bytes consumed so far')
    if n == 0:
        raise UnknownIdiom('%s: no normal way out of the method was found' % f.qual)


def _on_call_inl(env, call):
    looked = Inliner.value_of(env, call)
    return looked if looked is not None else _on_call(env, call)


# ---------------------------------------------------------------------------
# R6
# ---------------------------------------------------------------------------

def _builds(p, func, call, wrapper, depth=0):
    """Does `call` construct `wrapper` (directly or through a helper that returns such a construction)?
    Returns (function containing the constructor call, the constructor call) or None."""
    tgt = p.callee(func, call)
    if isinstance(tgt, Class) and tgt.qual == wrapper:
        return func, call
    if isinstance(tgt, Func) and depth < 2:
        rets = [r for r in walk_self(tgt.node) if isinstance(r, ast.Return)]
        found = [_builds(p, tgt, strip_await(r.value), wrapper, depth + 1) if r.value is not None and isinstance(strip_await(r.value), ast.Call) else None for r in rets]
        if found and all(found):
            if len(found) > 1:
                raise UnknownIdiom('%s: several constructions of the stream wrapper' % tgt.qual)
            return found[0]
    return None


def _memo(run, f, wrapper):
    """Memo discipline of a lazy property by abstract execution: a set memo is returned untouched,
    an unset one is built once, stored and returned."""
    p = run.project
    cfg = cfg_of(f, p)
    run.use_cfg(cfg)
    rets = [r for r in walk_self(f.node) if isinstance(r, ast.Return) and r.value is not None]
    memos = {dotted(r.value) for r in rets if (dotted(r.value) or '').startswith('self.')}
    if len(memos) != 1:
        # the memo held in a local on the way (`stream = self._memo; if stream is None: stream = self._memo = build(); return stream`):
        # the one attribute of self the accessor stores
        memos = {dotted(t) for x in walk_self(f.node) if isinstance(x, (ast.Assign, ast.AnnAssign))
                 for t in (x.targets if isinstance(x, ast.Assign) else [x.target]) if isinstance(t, ast.Attribute) and dotted(t.value) == 'self'}
    if len(memos) != 1 and f.cls is not None:
        # ... or (the store forgotten) the one data attribute of self it reads
        memos = {dotted(x) for x in walk_self(f.node) if isinstance(x, ast.Attribute) and isinstance(x.ctx, ast.Load) and dotted(x.value) == 'self'
                 and p.lookup_method(f.cls.qual, x.attr) is None}
    if len(memos) != 1:
        raise UnknownIdiom('%s: does not return a single memo attribute' % f.qual)
    memo = memos.pop()
    built = {}

    def on_call(env, call):
        b = _builds(p, f, call, wrapper)
        if b is not None:
            a = fresh('wrapper')
            built[a] = b
            env.ghost['built'] = env.ghost.get('built', ()) + (a,)
            return Lin.atom(a)
        return None

    site = None
    for case in ('set', 'unset'):
        ok, n = True, 0
        for steps, end in paths_from(cfg, cfg.entry, loop_heads(cfg), local_edges(cfg)):
            env = DelEnv(on_call)
            m = env.var(memo).lone()
            env.is_none[m] = case == 'unset'
            env.truth[m] = case == 'set'
            for e in run_steps(env, cfg, steps):
                rv = [val for k, val, _n in e.log if k == 'return']
                if not rv:
                    continue
                n += 1
                r = rv[-1]
                bl = e.ghost.get('built', ())
                if case == 'set':
                    ok = ok and isinstance(r, Lin) and r.lone() == m and not bl
                else:
                    ok = ok and isinstance(r, Lin) and len(bl) == 1 and r.lone() == bl[0] and e.vars.get(memo) == r
                    if bl:
                        site = built[bl[0]]
        run.check(ok and n > 0, '%s: %s' % (f.qual.rsplit('.', 2)[-2] + '.' + f.name,
                                           'an existing stream wrapper is returned as is (never rebuilt)' if case == 'set'
                                           else 'a missing stream wrapper is built exactly once, stored in %s and returned' % memo),
                  f, '%s memo (%s)' % (memo, case), where=f.loc(),
                  runtime_witness='req.%s evaluated twice yields two wrappers with independent budgets: the body can be read twice / beyond Content-Length' % f.name)
    if site is None:
        raise AnchorError('%s: construction of %s not found' % (f.qual, wrapper))
    return site


def _ctor_arg(p, wrapper, call, name):
    init = p.func(wrapper + '.__init__')
    ps = [a for a in init.params() if a != 'self']
    for k in call.keywords:
        if k.arg == name:
            return k.value
    i = ps.index(name) if name in ps else None
    if i is None:
        raise AnchorError('%s.__init__ has no parameter %s' % (wrapper, name))
    return call.args[i] if i < len(call.args) else None


# ---------------------------------------------------------------------------
# R6: which request-table keys feed the value an accessor returns
# ---------------------------------------------------------------------------

def _key_class(p, f, key):
    """a constant key, 'HTTP_*' (a key built around the client-header prefix), or None (not read)"""
    v = p.fold(f.module, key, f.cls, f)
    if isinstance(v, (str, bytes)):
        return v
    lead = None
    if isinstance(key, ast.BinOp) and isinstance(key.op, (ast.Add, ast.Mod)):
        lead = p.fold(f.module, key.left, f.cls, f)
    elif isinstance(key, ast.JoinedStr) and key.values and isinstance(key.values[0], ast.Constant):
        lead = key.values[0].value
    elif isinstance(key, ast.Call) and isinstance(key.func, ast.Attribute) and key.func.attr == 'format':
        lead = p.fold(f.module, key.func.value, f.cls, f)
    if isinstance(lead, str) and lead.startswith('HTTP_'):
        return 'HTTP_*'
    return None


def table_reads_feeding(p, f: Func, tables, depth=0, _seen=None):
    """[(function, read expression, table attribute, key class)]: every read `self.<table>[k]` /
    `self.<table>.get(k, ...)` (also through a local alias of the table, a same-class helper method or
    property, two levels deep) whose result may become the value `f` returns.  Data flow only (flow-insensitive over
    the locals, so a superset): tests that merely choose between values are not followed."""
    _seen = set() if _seen is None else _seen
    if f.qual in _seen:
        return []
    _seen.add(f.qual)
    alias = {}
    for n in walk_self(f.node):
        if isinstance(n, ast.Assign) and len(n.targets) == 1 and isinstance(n.targets[0], ast.Name):
            ch = dotted(n.value) or ''
            if ch.startswith('self.') and ch[5:] in tables:
                alias[n.targets[0].id] = ch[5:]

    def table_of(e):
        ch = dotted(e) or ''
        if ch.startswith('self.') and ch[5:] in tables:
            return ch[5:]
        if isinstance(e, ast.Name):
            return alias.get(e.id)
        return None

    binds = {}
    for n in walk_self(f.node):
        tgts, val = [], None
        if isinstance(n, ast.Assign):
            tgts, val = n.targets, n.value
        elif isinstance(n, (ast.AnnAssign, ast.AugAssign, ast.NamedExpr)):
            tgts, val = [n.target], n.value
        elif isinstance(n, (ast.For, ast.AsyncFor)):
            tgts, val = [n.target], n.iter
        elif isinstance(n, (ast.With, ast.AsyncWith)):
            for it in n.items:
                if it.optional_vars is not None:
                    for x in ast.walk(it.optional_vars):
                        if isinstance(x, ast.Name):
                            binds.setdefault(x.id, []).append(it.context_expr)
        if val is None:
            continue
        for t in tgts:
            for x in ast.walk(t):
                if isinstance(x, ast.Name) and isinstance(x.ctx, ast.Store):
                    binds.setdefault(x.id, []).append(val)

    out = []
    done_names, done_exprs = set(), set()
    params = set(f.params())

    def feed(e):
        if e is None or id(e) in done_exprs:
            return
        done_exprs.add(id(e))
        e = strip_await(e)
        if isinstance(e, ast.Constant):
            return
        if isinstance(e, ast.IfExp):
            feed(e.body)
            feed(e.orelse)
            return
        if isinstance(e, ast.Compare) or (isinstance(e, ast.UnaryOp) and isinstance(e.op, ast.Not)):
            return
        if isinstance(e, ast.Name):
            if e.id in alias:
                raise UnknownIdiom('%s: the whole table %s feeds the returned value' % (f.qual, e.id))
            if e.id not in done_names and e.id not in params:
                done_names.add(e.id)
                for v in binds.get(e.id, []):
                    feed(v)
            return
        if isinstance(e, ast.Subscript):
            t = table_of(e.value)
            if t is not None:
                out.append((f, e, t, _key_class(p, f, e.slice)))
                return
            feed(e.value)
            return
        if isinstance(e, ast.Call):
            fn = e.func
            if isinstance(fn, ast.Attribute):
                t = table_of(fn.value)
                if t is not None:
                    if fn.attr in ('get', 'pop', 'setdefault', '__getitem__') and e.args and not isinstance(e.args[0], ast.Starred):
                        out.append((f, e, t, _key_class(p, f, e.args[0])))
                        for a in e.args[1:]:
                            feed(a)
                        for k in e.keywords:
                            feed(k.value)
                        return
                    raise UnknownIdiom('%s: %s feeds the returned value' % (f.qual, short(e)))
            tgt = p.callee(f, e)
            if isinstance(tgt, Func) and (tgt.cls is not None and f.cls is not None) and isinstance(fn, ast.Attribute) and dotted(fn.value) == 'self':
                if depth >= 2:
                    raise UnknownIdiom('%s: helper chain below %s is too deep to read' % (f.qual, short(e)))
                out.extend(table_reads_feeding(p, tgt, tables, depth + 1, _seen))
            elif isinstance(fn, ast.Attribute):
                feed(fn.value)          # a method of a value: `value.strip()`
            for a in e.args:
                feed(a.value if isinstance(a, ast.Starred) else a)
            for k in e.keywords:
                feed(k.value)
            return
        if isinstance(e, ast.Attribute):
            ch = dotted(e) or ''
            if ch.startswith('self.') and ch.count('.') == 1 and f.cls is not None:
                if ch[5:] in tables:
                    raise UnknownIdiom('%s: the whole table %s feeds the returned value' % (f.qual, ch))
                m = p.lookup_method(f.cls.qual, e.attr)
                if isinstance(m, Func) and m.is_property():
                    if depth >= 2:
                        raise UnknownIdiom('%s: helper chain below %s is too deep to read' % (f.qual, ch))
                    out.extend(table_reads_feeding(p, m, tables, depth + 1, _seen))
                return                  # a plain attribute: not a table read
            feed(e.value)
            return
        for c in ast.iter_child_nodes(e):
            if isinstance(c, ast.expr):
                feed(c)

    rets = [r for r in walk_self(f.node) if isinstance(r, ast.Return) and r.value is not None]
    if not rets and depth == 0:
        raise AnchorError('%s returns nothing' % f.qual)
    for r in rets:
        feed(r.value)
    for y in walk_self(f.node):
        if isinstance(y, (ast.Yield, ast.YieldFrom)) and y.value is not None:
            feed(y.value)
    return out


def budget_source_keys(run, accessor_qual, tables, allowed, stack, witness):
    """The length that becomes the stream budget is what the SERVER framed the body with: the accessor's value is fed
    by the one tabled key of the tabled table and by no other request-table read."""
    p = run.project
    f = p.func(accessor_qual)
    run.use(f)
    reads = table_reads_feeding(p, f, tables)
    what = ('%s: the stream budget (req.content_length) is fed only by %s - the length the server framed the body with'
            % (stack, ' / '.join('self.%s[%r]' % a for a in sorted(allowed))))
    unknown = []
    bad = False
    seen = set()
    for (g, e, t, k) in reads:
        if id(e) in seen:
            continue
        seen.add(id(e))
        if (t, k) in allowed:
            run.ok(what, g.loc(e), e)
        elif k is None:
            unknown.append('%s: key of %s' % (g.qual, short(e)))
        else:
            bad = True
            run.fail(what + ' [also fed by self.%s[%s]%s]' % (t, k if k == 'HTTP_*' else repr(k),
                                                              ': the HTTP_ keys are the client\'s header namespace' if str(k).startswith('HTTP_') else ''),
                     g, e, where=g.loc(e), runtime_witness=witness)
    if unknown and not bad:
        raise UnknownIdiom('; '.join(unknown[:2]) + ' is not a constant the rule can read')
    if not bad and not any((t, k) in allowed for (_g, _e, t, k) in reads):
        raise AnchorError('%s: no read of %s feeds the returned value' % (f.qual, ' / '.join('self.%s[%r]' % a for a in sorted(allowed))))


def _zero_fallback(run, host, construct, value, case):
    """The constant that stands in for a length the request does not (validly) declare is 0: "assume no content".  Any
    other constant is an allowance of bytes nobody declared -- the wrapper asks wsgi.input for them (on a socket-backed
    server with no body that read blocks; with pipelining it eats the next request).
    Witness: `Content-Length: abc` (or none), req.bounded_stream.read() pulls bytes out of wsgi.input."""
    run.check(value == 0, 'WSGI: the budget that stands in for %s is exactly 0 (no byte is read that no Content-Length declared)' % case,
              host, construct, where=host.loc(construct),
              runtime_witness='a request with %s: req.bounded_stream.read() asks wsgi.input for %r byte(s) beyond the declared (empty) body'
                              % (case.replace('an ', '').replace('a ', ''), value))


def lazy_wrapping(run):
    p = run.project
    # ---- WSGI
    f = p.func('falcon.request.Request.bounded_stream')
    host, call = _memo(run, f, WSGI)
    run.use(host)
    arg = _ctor_arg(p, WSGI, call, 'stream_len')
    srcs = []      # value expressions that may reach the length argument
    if isinstance(arg, ast.Name):
        for s in walk_self(host.node):
            if isinstance(s, ast.Assign) and any(isinstance(t, ast.Name) and t.id == arg.id for t in s.targets):
                srcs.append(s)
        if not srcs:
            raise UnknownIdiom('%s: no assignment to %s' % (host.qual, arg.id))
        exprs = [s.value for s in srcs]
    elif arg is not None:
        exprs = [arg]
    else:
        raise UnknownIdiom('%s: the wrapper is built without a length' % host.qual)

    def from_header(e):
        return isinstance(e, ast.BoolOp) and isinstance(e.op, ast.Or) and len(e.values) == 2 and dotted(e.values[0]) == 'self.content_length' \
            and isinstance(e.values[1], ast.Constant) and isinstance(e.values[1].value, int) and e.values[1].value >= 0

    def const_nat(e):
        return isinstance(e, ast.Constant) and isinstance(e.value, int) and not isinstance(e.value, bool) and e.value >= 0

    hdr = [e for e in exprs if from_header(e)]
    other = [e for e in exprs if not from_header(e) and not const_nat(e)]
    run.check(bool(hdr) and not other, 'WSGI: the wrapper\'s length is `self.content_length or <n>` (missing header -> 0), or a constant fallback',
              host, other[0] if other else call, runtime_witness='a request without / with a wrong length source: bounded_stream.read() blocks or over-reads')
    # A constant budget is the fallback for an INVALID header and for nothing else: it may reach the constructor only on
    # paths that come through a handler catching HTTPInvalidHeader around the header read.  Whatever else the request looks
    # like (method, content type, options), the budget is the declared length.
    parent = enclosing_map(host.node)

    def catches_invalid_header(h):
        types = [None] if h.type is None else (h.type.elts if isinstance(h.type, ast.Tuple) else [h.type])
        for t in types:
            q = p.resolve_expr(host.module, t, host) if t is not None else 'builtins.BaseException'
            if q and (q == 'falcon.errors.HTTPInvalidHeader' or p.is_subclass('falcon.errors.HTTPInvalidHeader', q)):
                return True
        return False

    mapped = False
    if srcs:
        # (the CFG does not model a property read as raising: which handler a store sits in is read from the syntax,
        # which stores reach the constructor on the normal paths from the CFG)
        cfg = cfg_of(host, p)
        run.use_cfg(cfg)
        hdr_stmts = [s for s in srcs if from_header(s.value)]
        guarded = {}            # id(header-read statement) -> handlers around it that catch HTTPInvalidHeader
        for s in hdr_stmts:
            child = s
            for a in ancestors(s, parent):
                if isinstance(a, ast.Try) and any(child is b for b in a.body):
                    guarded.setdefault(id(s), []).extend(h for h in a.handlers if catches_invalid_header(h))
                child = a
        legit_handlers = [h for hs in guarded.values() for h in hs]

        def handler_of(s):
            """the except handler whose body the statement sits in (innermost), or None"""
            child = s
            for a in ancestors(s, parent):
                if isinstance(a, ast.ExceptHandler) and any(child is b for b in a.body):
                    return a
                child = a
            return None

        def binds(n):
            return any(isinstance(x, ast.Name) and x.id == arg.id and isinstance(x.ctx, (ast.Store, ast.Del)) for x in ast.walk(n))

        stmt_of = {id(s): cfg.nodes_for(s) for s in srcs}
        known = {i for ids in stmt_of.values() for i in ids}
        all_defs = {n.id for n in cfg.live_nodes() if n.kind in ('stmt', 'iter', 'with', 'handler')
                    and any(isinstance(x, ast.Name) and x.id == arg.id and isinstance(x.ctx, (ast.Store, ast.Del)) for x in n.walk())}
        if all_defs - known:
            raise UnknownIdiom('%s: `%s` is also bound by `%s`' % (host.qual, arg.id, short(cfg.node(sorted(all_defs - known)[0]).text(), 40)))
        sink = [n.id for n in cfg.live_nodes() if n.kind in ('stmt', 'test') and any(x is call for x in n.walk())]
        if not sink:
            raise AnchorError('%s: CFG node of the constructor call not found' % host.qual)

        def reaches(s, goals):
            for d in stmt_of[id(s)]:
                starts = [y for (y, l) in cfg.succ[d] if l != 'exc']
                path = flow.find_path(cfg, starts, goals, avoid_nodes=known - set(goals))
                if path is not None:
                    return [d] + path
            return None

        what = 'WSGI: on every path the budget handed to the wrapper is the declared Content-Length; a constant only stands in for an invalid header'
        n_hdr, unknown = 0, []
        for s in srcs:
            if from_header(s.value):
                n_hdr += reaches(s, sink) is not None
            elif const_nat(s.value):
                h = handler_of(s)
                if h is not None and any(h is x for x in legit_handlers):
                    mapped = True
                    run.ok(what + ' (stored in the HTTPInvalidHeader handler around the header read)', host.loc(s), s)
                    _zero_fallback(run, host, s, s.value.value, 'an invalid Content-Length')
                    continue
                if h is not None:
                    unknown.append('%s: `%s` in a handler that does not guard the header read' % (host.qual, short(s, 40)))
                    continue
                direct = reaches(s, sink)
                if direct is not None:
                    run.fail(what + ': this constant reaches the constructor on a path where reading the header did not fail', host, s,
                             witness=flow.describe_path(cfg, direct),
                             runtime_witness='a request with Content-Length: 43 and 43 bytes of body for which the condition on the path holds: '
                                             'bounded_stream reports eof at once and read() returns b"" while the body sits unread in wsgi.input')
                    continue
                # a default set beforehand that survives only when the guarded header read raises into a handler that leaves it alone
                for t in hdr_stmts:
                    hs = guarded.get(id(t), [])
                    if hs and stmt_of[id(t)] and reaches(s, stmt_of[id(t)]) is not None \
                            and all(not binds(h2) and not any(isinstance(x, (ast.Return, ast.Raise)) for b in h2.body for x in ast.walk(b)) for h2 in hs):
                        mapped = True
                        run.ok(what + ' (default kept only when the guarded header read raises HTTPInvalidHeader)', host.loc(s), s)
                        _zero_fallback(run, host, s, s.value.value, 'an invalid Content-Length')
        run.check(n_hdr > 0, 'WSGI: the header-derived length reaches the constructor', host, call,
                  runtime_witness='the wrapper is never given the declared length: bounded_stream.read() returns nothing / over-reads')
        if unknown and not other:
            raise UnknownIdiom('; '.join(unknown[:2]))
    for e in hdr:
        _zero_fallback(run, host, e, e.values[1].value, 'a missing Content-Length')
    run.check(mapped, 'WSGI: an invalid Content-Length (HTTPInvalidHeader) is mapped to a zero-length body stream', host,
              hdr[0] if hdr else call, runtime_witness='Content-Length: abc -> req.bounded_stream raises instead of yielding an empty body')
    # ---- the accessor behind `self.content_length`: the budget is the CGI meta-variable the server framed the body with
    budget_source_keys(run, 'falcon.request.Request.content_length', ('env',), {('env', 'CONTENT_LENGTH')}, 'WSGI',
                       "no CONTENT_LENGTH (chunked upload) but a client header 'Content_Length: 64' (environ key HTTP_CONTENT_LENGTH): "
                       'bounded_stream gets a 64-byte budget nobody declared and reads into the next request')
    # ---- ASGI
    budget_source_keys(run, 'falcon.asgi.request.Request.content_length', ('_asgi_headers', 'scope'), {('_asgi_headers', b'content-length')}, 'ASGI',
                       'a request without Content-Length: the body stream takes its budget from some other header / scope field')
    g = p.func('falcon.asgi.request.Request.stream')
    host2, call2 = _memo(run, g, ASGI)
    run.use(host2)
    for name, want in (('content_length', 'self.content_length'), ('first_event', 'self._first_event'), ('receive', 'self._receive')):
        a = _ctor_arg(p, ASGI, call2, name)
        run.check(a is not None and dotted(a) == want, 'ASGI: the wrapper is built with %s=%s' % (name, want), host2,
                  '%s=%s' % (name, unparse(a) if a is not None else '<missing>'), where=host2.loc(call2),
                  runtime_witness='the ASGI stream ignores Content-Length / the preloaded first event')
    alias = p.func('falcon.asgi.request.Request.bounded_stream')
    rets = [r for r in walk_self(alias.node) if isinstance(r, ast.Return)]
    run.check(bool(rets) and all(r.value is not None and dotted(r.value) == 'self.stream' for r in rets),
              'ASGI: bounded_stream is an alias of the memoised stream', alias, rets[0] if rets else alias.name)
    asgi_who_may_construct(run, g, host2, call2)


ASGI_CTOR_ARGS = (('content_length', 'self.content_length'), ('first_event', 'self._first_event'), ('receive', 'self._receive'))


def asgi_who_may_construct(run, accessor: Func, memo_host: Func, memo_call):
    """Who may construct: wherever a member of the ASGI request class builds the body-stream wrapper -- the memoised
    `stream` accessor or anything else (an alias that takes a shortcut, a helper) -- it passes the declared length, the
    preloaded first event and the receive callable, exactly like the accessor.  A wrapper built without
    `content_length=self.content_length` has an unlimited budget; stored in the memo it IS the request's stream from then on.
    Witness: Content-Length: 5 and Transfer-Encoding present, 80 bytes delivered: `req.bounded_stream.read()` (first access
    through the alias) returns 80 bytes and goes on awaiting receive() past the declared body."""
    p = run.project
    cq = accessor.cls.qual if accessor.cls is not None else None
    if cq is None:
        raise AnchorError('%s is not a method of the request class' % accessor.qual)
    c = p.cls(cq)
    members = list(c.methods.values()) + [m for m in getattr(c, 'accessors', {}).values() if isinstance(m, Func)]
    seen_memo = False
    n_other = 0
    done = set()
    for m in sorted(members, key=lambda m: m.qual):
        if id(m.node) in done:
            continue
        done.add(id(m.node))
        for x in walk_self(m.node):
            if not isinstance(x, ast.Call):
                continue
            if x is memo_call:
                seen_memo = True
                continue
            fn = x.func
            if not (isinstance(fn, (ast.Name, ast.Attribute))):
                continue
            tgt = p.callee(m, x)
            if not (isinstance(tgt, Class) and tgt.qual == ASGI):
                continue
            n_other += 1
            run.use(m)
            if any(isinstance(a, ast.Starred) for a in x.args) or any(k.arg is None for k in x.keywords):
                raise UnknownIdiom('%s: the stream wrapper is built with star-arguments (`%s`)' % (m.qual, short(x, 60)))
            for name, want in ASGI_CTOR_ARGS:
                a = _ctor_arg(p, ASGI, x, name)
                run.check(a is not None and dotted(a) == want,
                          'ASGI: every construction of the stream wrapper in the request class passes %s=%s (here: %s)' % (name, want, m.name),
                          m, '%s(...) with %s=%s' % (unparse(x.func), name, unparse(a) if a is not None else '<missing>'), where=m.loc(x),
                          runtime_witness='Content-Length: 5 over a longer chunked upload, first access through req.%s: the wrapper has no limit, '
                                          'read() returns everything the server delivers and awaits receive() past the declared body' % m.name
                          if name == 'content_length' else
                          'req.%s builds a stream that ignores the preloaded first event / the receive callable' % m.name)
    if not seen_memo and memo_host.cls is accessor.cls:
        raise AnchorError('%s: the construction in the memoised accessor was not met while sweeping the class' % cq)
    run.ok('ASGI: the request class builds the stream wrapper in the memoised accessor%s' % (' and %d other place(s), each with the same arguments' % n_other if n_other else ' only'),
           accessor.loc(), 'constructions of %s in %s' % (ASGI.rsplit('.', 1)[-1], cq.rsplit('.', 1)[-1]))


# ---------------------------------------------------------------------------
# R2/R3: looking through helper methods / properties of the wrapper class
# ---------------------------------------------------------------------------

_BOOLISH = (ast.Compare, ast.BoolOp)


def _is_boolish(e):
    return isinstance(e, _BOOLISH) or (isinstance(e, ast.UnaryOp) and isinstance(e.op, ast.Not))


def unconditional_subexprs(e):
    """Sub-expressions of `e` that are evaluated whenever `e` is, innermost first
    (nothing behind a short-circuit, a conditional expression, a lambda or a comprehension)."""
    if isinstance(e, (ast.Lambda, ast.GeneratorExp, ast.ListComp, ast.SetComp, ast.DictComp)):
        return
    if isinstance(e, ast.BoolOp):
        yield from unconditional_subexprs(e.values[0])
    elif isinstance(e, ast.IfExp):
        yield from unconditional_subexprs(e.test)
    else:
        for c in ast.iter_child_nodes(e):
            if isinstance(c, (ast.expr, ast.keyword, ast.stmt)):
                yield from unconditional_subexprs(c)
    yield e


class Inliner:
    """Looks through `self.helper(args)` and `self.prop` when the callee is a loop-free method / property of the
    wrapper class that `accept`s: the callee's acyclic paths are executed in the caller's abstract state (arguments
    bound to the parameters, one fork per feasible branch outcome) and its return value replaces the call.  At most
    `max_depth` levels; whatever cannot be looked through keeps the caller's default treatment (an unknown value)."""

    def __init__(self, project, cls, accept, max_depth=2):
        self.p = project
        self.cls = cls
        self.accept = accept            # Func -> bool: may this method be looked through at all?
        self.max_depth = max_depth
        self._ok = {}
        self.used = set()

    # -- which callees
    def _inlinable(self, h: Func) -> bool:
        if h.qual not in self._ok:
            a = h.node.args
            # a method / property of the class (first parameter `self`), a @staticmethod of the class, or a plain
            # module-level function (neither sees `self` unless it is handed it: then the caller's hooks treat the call
            # as one that may move the wrapper's state, and it is not looked through)
            unbound = self.unbound(h)
            ok = (not h.is_async and not a.vararg and not a.kwarg and not a.kwonlyargs and not a.posonlyargs
                  and (unbound or (bool(a.args) and a.args[0].arg == 'self')) and not h.is_setter()
                  and not any(isinstance(x, (ast.Yield, ast.YieldFrom, ast.Await, ast.While, ast.For, ast.AsyncFor, ast.Try, ast.With,
                                             ast.AsyncWith, ast.Global, ast.Nonlocal, ast.Delete)) for x in walk_self(h.node))
                  and (h.decorators == ['staticmethod'] if (unbound and h.cls is not None) else all(d == 'property' for d in h.decorators))
                  and (not unbound or not any(x.arg == 'self' for x in a.args))
                  and bool(self.accept(h)))
            self._ok[h.qual] = ok
        return self._ok[h.qual]

    @staticmethod
    def unbound(h: Func) -> bool:
        """A @staticmethod or a module-level function: every parameter is an explicit argument."""
        return (h.cls is None and h.parent is None) or 'staticmethod' in h.decorators

    def target(self, caller: Func, e, depth):
        """The helper a sub-expression stands for: ('call'|'prop', Func) or None."""
        if depth >= self.max_depth:
            return None
        if isinstance(e, ast.Call) and isinstance(e.func, ast.Attribute) and dotted(e.func.value) == 'self':
            h = self.cls.methods.get(e.func.attr)
            if h is not None and not h.is_property() and self._inlinable(h) and not any(isinstance(a, ast.Starred) for a in e.args) \
                    and not any(k.arg is None for k in e.keywords):
                return ('call', h)
        elif isinstance(e, ast.Call) and isinstance(e.func, ast.Name) and not any(isinstance(a, ast.Starred) for a in e.args) \
                and not any(k.arg is None for k in e.keywords) and not any(dotted(a) == 'self' for a in list(e.args) + [k.value for k in e.keywords]):
            # a plain function of the caller's own module (k-style refactoring: a test / a clamp moved out of the class)
            h = self.p.resolve_callable(caller, e.func)
            if isinstance(h, Func) and h.cls is None and h.parent is None and h.module is caller.module and self._inlinable(h):
                return ('call', h)
        elif isinstance(e, ast.Attribute) and isinstance(e.ctx, ast.Load) and dotted(e.value) == 'self':
            h = self.cls.methods.get(e.attr)
            if h is not None and h.is_property() and self._inlinable(h):
                return ('prop', h)
        return None

    # -- one CFG node of the caller
    def expand(self, env: Env, caller: Func, node, depth) -> List[Env]:
        """States in which every helper use of this CFG node has been evaluated (values parked in ghost['inl'] /
        temporary bindings that `settle` removes again)."""
        sites = []
        for own in node.own():
            for e in unconditional_subexprs(own):
                t = self.target(caller, e, depth)
                if t is not None and not any(e is s for s, _t in sites):
                    # the function part of an inlined call is not a property read
                    sites.append((e, t))
        called = {id(e.func) for e, t in sites if t[0] == 'call'}
        sites = [(e, t) for e, t in sites if id(e) not in called]
        envs = [env]
        for e, (kind, h) in sites:
            nxt = []
            for cur in envs:
                for out, val in self.inline(cur, caller, e, kind, h, depth):
                    if kind == 'call':
                        out.ghost['inl'] = dict(out.ghost.get('inl', {}), **{str(id(e)): val})
                    else:
                        d = dotted(e)
                        out.vars[d] = val
                        out.ghost['tmp'] = out.ghost.get('tmp', ()) + (d,)
                    nxt.append(out)
            envs = nxt
        return envs

    @staticmethod
    def settle(env: Env):
        for d in env.ghost.pop('tmp', ()):
            env.vars.pop(d, None)
        env.ghost.pop('inl', None)

    @staticmethod
    def value_of(env: Env, call):
        inl = env.ghost.get('inl')
        return inl.get(str(id(call))) if inl else None

    # -- the callee
    def inline(self, env: Env, caller: Func, site, kind, h: Func, depth):
        params = [a.arg for a in h.node.args.args][(0 if self.unbound(h) else 1):]
        defaults = dict(zip(params[len(params) - len(h.node.args.defaults):], h.node.args.defaults)) if h.node.args.defaults else {}
        bound = {}
        if kind == 'call':
            if len(site.args) > len(params):
                raise UnknownIdiom('%s: too many arguments for %s' % (caller.qual, h.qual))
            for name, a in zip(params, site.args):
                bound[name] = env.eval(a)
            for k in site.keywords:
                if k.arg not in params or k.arg in bound:
                    raise UnknownIdiom('%s: cannot bind argument %s of %s' % (caller.qual, k.arg, h.qual))
                bound[k.arg] = env.eval(k.value)
        for name in params:
            if name not in bound:
                if name not in defaults:
                    raise UnknownIdiom('%s: argument %s of %s is not supplied' % (caller.qual, name, h.qual))
                bound[name] = env.eval(defaults[name])
        self.used.add(h.qual)
        he = env.fork()
        saved = {k: v for k, v in he.vars.items() if k.split('.')[0] != 'self'}
        for k in saved:
            del he.vars[k]
        parked = (he.ghost.pop('inl', None), he.ghost.pop('tmp', ()))
        he.vars.update(bound)
        mark = len(he.log)
        cfg = cfg_of(h, self.p)
        out = []
        for steps, end in paths_from(cfg, cfg.entry, (), local_edges(cfg)):
            if end != cfg.exit:
                continue            # the helper raises: the caller's path ends here
            for fe in run_steps_inl(he.fork(), cfg, steps, self, depth=depth + 1):
                tail = fe.log[mark:]
                if any(k in ('raise', 'yield') for k, _v, _n in tail):
                    continue
                rets = [v for k, v, _n in tail if k == 'return']
                fe.log = fe.log[:mark]
                fe.vars = dict({k: v for k, v in fe.vars.items() if k.split('.')[0] == 'self'}, **saved)
                if parked[0] is not None:
                    fe.ghost['inl'] = parked[0]
                if parked[1]:
                    fe.ghost['tmp'] = parked[1]
                out.append((fe, rets[-1] if rets else NONE))
        return out


def run_steps_inl(env: Env, cfg, steps, inliner: Inliner, on_node=None, depth=0, rewrite=None) -> List[Env]:
    """`linexpr.run_steps` that looks through helper methods / properties of the class (see Inliner).
    A `return <comparison>` forks on the outcome, so that a boolean helper carries its facts to the caller.
    `rewrite(test)` may put a branch condition into an equivalent form the evaluator models."""
    envs = [env]
    for (nid, label) in steps:
        n = cfg.node(nid)
        nxt = []
        for e0 in envs:
            if on_node is not None:
                on_node(e0, n, label)
            active = (n.kind == 'stmt' and (label != 'exc' or isinstance(n.ast, ast.Raise))) or (n.kind == 'test' and label in ('T', 'F'))
            for e in (inliner.expand(e0, cfg.func, n, depth) if active else [e0]):
                if n.kind == 'stmt':
                    if active:
                        if isinstance(n.ast, ast.Return) and n.ast.value is not None and _is_boolish(n.ast.value):
                            for truth in (True, False):
                                for e2 in e.assume(n.ast.value, truth):
                                    e2.log.append(('return', Konst(truth), n.ast))
                                    inliner.settle(e2)
                                    nxt.append(e2)
                            continue
                        e.exec(n.ast)
                    inliner.settle(e)
                    nxt.append(e)
                elif n.kind == 'test':
                    outs = e.assume(rewrite(n.ast) if rewrite is not None else n.ast, label == 'T') if label in ('T', 'F') else [e]
                    for e2 in outs:
                        inliner.settle(e2)
                    nxt.extend(outs)
                elif n.kind == 'iter':
                    if label == 'next':
                        e.eval(n.stmt.iter)
                        e.assign(n.stmt.target, Lin.atom(fresh('item:' + short(n.stmt.target, 30))))
                    nxt.append(e)
                else:
                    nxt.append(e)
        envs = nxt
        if not envs:
            break
    return envs
