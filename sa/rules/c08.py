"""C08 - query strings and typed getters (DESIGN.md section 3, C08)."""

from __future__ import annotations

import ast
import itertools
from typing import Dict, Optional

from .. import flow
from ..cfg import cfg_of
from ..model import AnchorError, Func, UnknownIdiom, attr_chain, short, walk_no_nested
from .c09_helpers import (ASGI_REQ, UNK, WSGI_REQ, ReachingDefs, SiteEscape, branch_facts, ceval, concat_parts,
                          effective_members, fact_value, inline_stmt_helpers, node_defs, node_of, polar_fact, raises_on, resolves_to, split_key, table_of)
from .c09_helpers import TABLE_KINDS
from .common import implied, walk_self

PQS = 'falcon.util.uri.parse_query_string'
DECODE = 'falcon.util.uri.decode'
ENCODE_VALUE = 'falcon.util.uri.encode_value'
TO_QS = 'falcon.util.misc.to_query_str'
INVALID_PARAM = 'falcon.errors.HTTPInvalidParam'
MISSING_PARAM = 'falcon.errors.HTTPMissingParam'


def _is_name(e, name) -> bool:
    return isinstance(e, ast.Name) and e.id == name


def _method_call(e, attr, *consts) -> bool:
    return (isinstance(e, ast.Call) and isinstance(e.func, ast.Attribute) and e.func.attr == attr
            and len(e.args) >= len(consts)
            and all(isinstance(a, ast.Constant) and a.value == c for a, c in zip(e.args, consts)))


def _parent_map(root) -> Dict[int, ast.AST]:
    par = {}
    for n in ast.walk(root):
        for c in ast.iter_child_nodes(n):
            par[id(c)] = n
    return par


# ---------------------------------------------------------------------------
# R1 split-then-decode
# ---------------------------------------------------------------------------

def r1_split_then_decode(run):
    p = run.project
    f = p.func(PQS)
    cfg = cfg_of(f, p)
    run.use_cfg(cfg)
    params = f.params()
    if len(params) < 3:
        raise AnchorError('%s: expected (query_string, keep_blank, csv)' % PQS)
    qs, keep_blank, csv = params[:3]
    par = _parent_map(f.node)
    rd = ReachingDefs(cfg)

    # the field loop and the name/value partition
    part = None
    for n in walk_no_nested(f.node):
        if (isinstance(n, ast.Assign) and isinstance(n.value, ast.Call) and isinstance(n.value.func, ast.Attribute)
                and n.value.func.attr in ('partition', 'rpartition', 'split', 'rsplit')
                and n.value.args and _separator_value(p, f, n.value.args[0]) == '='):
            part = n
    if part is None:
        raise AnchorError('%s: the name/value separation on "=" was not found' % PQS)
    if not (isinstance(part.targets[0], ast.Tuple) and len(part.targets[0].elts) == 3
            and all(isinstance(x, ast.Name) for x in part.targets[0].elts)) or part.value.func.attr in ('split', 'rsplit'):
        raise UnknownIdiom('%s: name/value separation %s' % (PQS, short(part)))
    kname, _sep, vname = [x.id for x in part.targets[0].elts]
    run.check(part.value.func.attr == 'partition', 'name and value are separated at the FIRST "=" (partition)', f, part,
              runtime_witness='"a=b=c" read as a=b -> "c" instead of a -> "b=c"')
    loop = None
    cur = par.get(id(part))
    while cur is not None:
        if isinstance(cur, ast.For):
            loop = cur
            break
        cur = par.get(id(cur))
    if loop is None or not isinstance(loop.target, ast.Name) or not _is_name(part.value.func.value, loop.target.id):
        raise UnknownIdiom('%s: the partition is not applied to the variable of a field loop' % PQS)
    it = loop.iter
    if isinstance(it, ast.Name) and it.id not in params:
        # `fields = query_string.split('&')` bound once in front of the loop
        stores = [x for x in ast.walk(f.node) if isinstance(x, ast.Name) and x.id == it.id and isinstance(x.ctx, (ast.Store, ast.Del))]
        binds = [x for x in walk_no_nested(f.node) if isinstance(x, (ast.Assign, ast.AnnAssign)) and x.value is not None
                 and (x.targets if isinstance(x, ast.Assign) else [x.target]) == [stores[0]]] if len(stores) == 1 else []
        other_uses = [x for x in ast.walk(f.node) if isinstance(x, ast.Name) and x.id == it.id and isinstance(x.ctx, ast.Load) and x is not it]
        if len(binds) == 1 and not other_uses and not any(isinstance(x, ast.Name) and x.id == qs and isinstance(x.ctx, (ast.Store, ast.Del))
                                                          for x in ast.walk(f.node)):
            it = binds[0].value
    if not (isinstance(it, ast.Call) and isinstance(it.func, ast.Attribute) and it.func.attr == 'split' and it.args
            and _is_name(it.func.value, qs)):
        raise UnknownIdiom('%s: field loop iterates %s' % (PQS, short(it)))
    sep = _separator_value(p, f, it.args[0])
    if sep is UNK:
        raise UnknownIdiom('%s: field loop iterates %s' % (PQS, short(it)))
    run.check(sep == '&' and len(it.args) == 1 and not it.keywords, 'fields are obtained by splitting the whole query string on "&"', f, it,
              witness=None if isinstance(it.args[0], ast.Constant) else ['%s = %r in every call made inside the package (its default; no call passes it)'
                                                                          % (short(it.args[0]), sep)],
              runtime_witness='"a=1&b=2" is read as the single parameter a -> "1&b=2" (or fields are cut at another character)')

    # the CSV splits and what becomes of their pieces: decided per path (see _CsvWalk)
    field = loop.target.id
    flags, supers_all, dirty, _chars = _shortcut_model(p, f, cfg, qs, kname, vname, field)
    walk = _CsvWalk(run, p, dirty)
    loop_iter = [n.id for n in cfg.live_nodes() if n.kind == 'iter' and n.stmt is loop]
    env0 = {vname: _RAW, keep_blank: _Flag('keep_blank', True), csv: _Flag('csv', True)}
    part_nid = node_of(cfg, part)
    walk.walk(f, cfg, [y for (y, l) in cfg.succ[part_nid] if l != 'exc'], env0, {}, set(loop_iter), (), 0, None, flags, supers_all)
    here = [n for n in walk_no_nested(f.node) if _method_call(n, 'split', ',')]
    for sp in here:
        if id(sp) not in walk.splits_seen:
            raise UnknownIdiom('%s: %s is not applied on a path from the name/value partition' % (PQS, short(sp)))
    if not walk.splits_seen:
        raise AnchorError('%s: no split(",") of the value found (CSV support removed?)' % PQS)
    for key, (fn, sp) in walk.split_nodes.items():
        if key not in walk.sunk:
            raise UnknownIdiom('%s: pieces of %s are never used' % (fn.qual, short(sp)))
    walk.report()

    # dropping whole fields
    conts = [n for n in cfg.live_nodes() if n.kind == 'stmt' and isinstance(n.ast, ast.Continue)
             and any(x is n.ast for x in ast.walk(loop))]
    if not conts:
        raise AnchorError('%s: no `continue` drops a field (blank handling moved?)' % PQS)
    rows = []
    for vv, kk, kb in itertools.product((True, False), repeat=3):
        env = {vname: vv, kname: kk, keep_blank: kb}
        dropped = False
        for cn in conts:
            conds = []
            for test, truth in branch_facts(cfg, cn.id):
                r = ceval(test, env)
                if r is UNK:
                    names = {x.id for x in walk_self(test) if isinstance(x, ast.Name)}
                    if names & {vname, kname, keep_blank}:
                        raise UnknownIdiom('%s: cannot evaluate the guard %s of a field drop' % (PQS, short(test)))
                    continue
                conds.append(bool(r) == truth)
            if all(conds) and conds:
                dropped = True
        rows.append((vv, kk, kb, dropped))
    bad = []
    for vv, kk, kb, dropped in rows:
        if vv and dropped:
            bad.append('a field with a non-blank value is dropped (name %s, keep_blank=%s)' % ('present' if kk else 'empty', kb))
        if not vv and kk and kb and dropped:
            bad.append('"name=" is dropped although keep_blank is on')
        if not vv and kk and not kb and not dropped:
            bad.append('"name=" is kept although keep_blank is off')
    run.check(not bad, 'a field is dropped only when its value is blank, and "name=" is dropped iff keep_blank is off '
              '(truth table over value/name/keep_blank)', f, conts[0].ast, where='%s:%s' % (f.file, conts[0].lineno), witness=bad,
              runtime_witness='?a=&b=1 parsed against the keep_blank_qs_values setting')


def _separator_value(p, f: Func, e):
    """The separator handed to split(): a literal, or a parameter of `f` that is never re-bound, has a literal default
    and is passed by no call of `f` anywhere in the package (positionally, by keyword, through * / **; `f` is only ever
    called there, not handed on as a value): for the requests the framework parses it then IS its default."""
    if isinstance(e, ast.Constant):
        return e.value
    if isinstance(e, ast.Name) and e.id in f.params():
        from .c10 import _unpassed_defaults
        if any(isinstance(x, ast.Name) and x.id == e.id and isinstance(x.ctx, (ast.Store, ast.Del)) for x in ast.walk(f.node)):
            return UNK
        d = _unpassed_defaults(p, f, [e.id]).get(e.id)
        if isinstance(d, ast.Constant):
            return d.value
    if isinstance(e, (ast.Name, ast.Attribute)) and not (isinstance(e, ast.Name) and e.id in f.params()):
        v = p.fold(f.module, e, None, f)      # a module-level constant (`_FIELD_SEP = '&'`)
        if isinstance(v, str):
            return v
    return UNK


def _owner_comp(par, c):
    o = par.get(id(c))
    if o is None:
        raise UnknownIdiom('comprehension without owner')
    return o


def _use_node(cfg, name_node) -> int:
    for n in cfg.live_nodes():
        if n.copy:
            continue
        for x in n.walk():
            if x is name_node:
                return n.id
    raise AnchorError('%s: no CFG node for a use of %s' % (cfg.func.qual, name_node.id))


# ---------------------------------------------------------------------------
# R1: the comma split and its pieces, decided per path
# ---------------------------------------------------------------------------
#
# Abstract values: the undecoded value of the field (_RAW), its decoded form (_DEC), one of the two parser options
# (_Flag, with polarity, so `not keep_blank` handed to a helper is still the option) and the list of pieces of a
# comma split (_Pieces: decoded? blank pieces filtered out?).  Every path from the name/value partition to the end of
# the loop body is walked once; branch outcomes add facts (keep_blank / csv known, "the value contains nothing
# decode() rewrites" through R15's three-valued guard model).  A module-level helper that is handed the raw value
# or the pieces is walked the same way with its parameters standing for the arguments (inline summary).

_RAW = ('raw',)
_DEC = ('decoded',)


class _Flag(tuple):
    def __new__(cls, name, polarity):
        return tuple.__new__(cls, ('flag', name, polarity))


class _Pieces:
    __slots__ = ('decoded', 'filtered', 'split', 'made')

    def __init__(self, decoded, filtered, split, made):
        self.decoded = decoded
        self.filtered = filtered
        self.split = split      # key of the split(',') the pieces come from
        self.made = made        # (Func, statement, call context) that produced this list


def _flag_facts(test, truth: bool, env) -> Dict[str, bool]:
    if isinstance(test, ast.Name):
        v = env.get(test.id)
        return {v[1]: truth == v[2]} if isinstance(v, _Flag) else {}
    if isinstance(test, ast.UnaryOp) and isinstance(test.op, ast.Not):
        return _flag_facts(test.operand, not truth, env)
    if isinstance(test, ast.NamedExpr):
        return _flag_facts(test.value, truth, env)
    if isinstance(test, ast.BoolOp) and ((isinstance(test.op, ast.And) and truth) or (isinstance(test.op, ast.Or) and not truth)):
        out: Dict[str, bool] = {}
        for v in test.values:
            out.update(_flag_facts(v, truth, env))
        return out
    return {}


_CSV_WHAT = {
    'raw': ('the comma split is applied to the UNDECODED value on every path (an encoded %2C never splits)',
            '?a=1%2C2 with auto_parse_qs_csv parsed as ["1", "2"] instead of "1,2"'),
    'csv': ('the comma split happens only when the csv flag is set', '?a=1,2 split although auto_parse_qs_csv is off'),
    'dec': ('every piece of the comma split is decoded individually before it is stored (or stored as it stands only behind '
            'a guard proving that it contains nothing decode() rewrites)', '?a=x%20y,z with csv parsing yields "x%20y" undecoded'),
    'blank': ('blank pieces of a comma-separated value are dropped iff keep_blank is off',
              '?a=1,,2 yields a blank element although keep_blank_qs_values is off (or loses it although it is on)'),
}


class _CsvWalk:
    MAX_DEPTH = 3
    MAX_STEPS = 20000

    def __init__(self, run, p, dirty):
        self.run = run
        self.p = p
        self.dirty = dirty
        self.obl: Dict[tuple, dict] = {}
        self.splits_seen = set()
        self.split_nodes: Dict[tuple, tuple] = {}
        self.sunk = set()
        self.steps = 0

    # ---- obligations, aggregated over the paths
    def note(self, kind, ctx, fn: Func, construct, ok: bool, why: str = ''):
        key = (kind, ctx, fn.qual, id(construct))
        o = self.obl.setdefault(key, {'kind': kind, 'fn': fn, 'construct': construct, 'fails': []})
        if not ok and why not in o['fails']:
            o['fails'].append(why)

    def report(self):
        for o in self.obl.values():
            what, rw = _CSV_WHAT[o['kind']]
            self.run.check(not o['fails'], what, o['fn'], o['construct'], witness=o['fails'][:4] or None, runtime_witness=rw)

    # ---- expressions
    def is_decode(self, fn, e) -> bool:
        return isinstance(e, ast.Call) and resolves_to(self.p, fn, e, DECODE)

    def tracked(self, e, env) -> bool:
        return any(isinstance(x, ast.Name) and (env.get(x.id) is _RAW or isinstance(env.get(x.id), _Pieces)) for x in ast.walk(e))

    def aeval(self, e, env, facts, fn, stmt, ctx):
        if isinstance(e, ast.Name):
            return env.get(e.id)
        if isinstance(e, ast.NamedExpr):
            return self.aeval(e.value, env, facts, fn, stmt, ctx)
        if isinstance(e, ast.UnaryOp) and isinstance(e.op, ast.Not):
            v = self.aeval(e.operand, env, facts, fn, stmt, ctx)
            return _Flag(v[1], not v[2]) if isinstance(v, _Flag) else None
        if isinstance(e, ast.Call):
            if self.is_decode(fn, e):
                vals = [self.aeval(a, env, facts, fn, stmt, ctx) for a in e.args]
                if e.keywords or len(e.args) != 1:
                    if self.tracked(e, env):
                        raise UnknownIdiom('%s: decode() called with options: %s' % (fn.qual, short(e, 60)))
                    return None
                if isinstance(vals[0], _Pieces):
                    raise UnknownIdiom('%s: decode() applied to the list of pieces: %s' % (fn.qual, short(e, 60)))
                return _DEC if vals[0] in (_RAW, _DEC) else None
            if _method_call(e, 'split', ','):
                r = self.aeval(e.func.value, env, facts, fn, stmt, ctx)
                if r is not _RAW and r is not _DEC:
                    raise UnknownIdiom('%s: split(",") applied to %s' % (fn.qual, short(e.func.value)))
                if len(e.args) != 1 or e.keywords:
                    raise UnknownIdiom('%s: comma split with a limit: %s' % (fn.qual, short(e)))
                self.splits_seen.add(id(e))
                key = (ctx, id(e))
                self.split_nodes[key] = (fn, e)
                self.note('raw', ctx, fn, e, r is _RAW, 'the value was decoded before: %s' % short(e))
                self.note('csv', ctx, fn, e, facts.get('csv') is True, 'csv flag not known to be set on a path to %s' % short(e))
                return _Pieces(r is _DEC, False, key, (fn, stmt, ctx))
            if isinstance(e.func, ast.Name) and e.func.id in ('list', 'tuple') and len(e.args) == 1 and not e.keywords:
                v = self.aeval(e.args[0], env, facts, fn, stmt, ctx)
                return v if isinstance(v, _Pieces) else None
            return None
        if isinstance(e, (ast.ListComp, ast.GeneratorExp)):
            srcs = [self.aeval(c.iter, env, facts, fn, stmt, ctx) for c in e.generators]
            if not any(isinstance(s, _Pieces) for s in srcs):
                return None
            if len(e.generators) != 1:
                raise UnknownIdiom('%s: nested comprehension over the pieces: %s' % (fn.qual, short(e, 80)))
            c, src = e.generators[0], srcs[0]
            if not isinstance(c.target, ast.Name) or c.is_async:
                raise UnknownIdiom('%s: comprehension target %s' % (fn.qual, short(c.target)))
            for cond in c.ifs:
                if not _is_name(cond, c.target.id):
                    raise UnknownIdiom('%s: piece filter %s' % (fn.qual, short(cond)))
            if _is_name(e.elt, c.target.id):
                dec = src.decoded
            elif self.is_decode(fn, e.elt) and len(e.elt.args) == 1 and not e.elt.keywords and _is_name(e.elt.args[0], c.target.id):
                dec = True
            else:
                raise UnknownIdiom('%s: piece transformation %s' % (fn.qual, short(e.elt, 60)))
            return _Pieces(dec, src.filtered or bool(c.ifs), src.split, (fn, stmt, ctx))
        return None

    def eval_multi(self, e, env, facts, fn, stmt, ctx, depth, cx):
        """[(abstract value, facts)]: conditional expressions and helper calls have several outcomes."""
        if isinstance(e, ast.IfExp):
            outs = []
            for truth, arm in ((True, e.body), (False, e.orelse)):
                fx = self.edge_facts(e.test, truth, env, facts, cx)
                if fx is not None:
                    outs += self.eval_multi(arm, env, fx, fn, stmt, ctx, depth, cx)
            return outs
        if isinstance(e, ast.Call) and not self.is_decode(fn, e):
            g = self.p.callee(fn, e)
            args = list(e.args) + [k.value for k in e.keywords]
            if isinstance(g, Func) and any(self.aeval(a, env, facts, fn, stmt, ctx) is _RAW
                                           or isinstance(self.aeval(a, env, facts, fn, stmt, ctx), _Pieces) for a in args):
                return self.inline(g, e, env, facts, fn, stmt, ctx, depth, cx)
        v = self.aeval(e, env, facts, fn, stmt, ctx)
        if v is None:
            self.uses_in(e, env, facts, fn, stmt, ctx)
        return [(v, facts)]

    def uses_in(self, e, env, facts, fn, stmt, ctx):
        """Every other use of a list of pieces stores / hands it on: the obligations are due there."""
        if isinstance(e, ast.expr):
            v = self.aeval(e, env, facts, fn, stmt, ctx)
            if isinstance(v, _Pieces):
                self.sink(v, facts, fn, stmt)
                return
            if v is not None:
                return
        for c in ast.iter_child_nodes(e):
            if isinstance(c, (ast.expr, ast.comprehension, ast.keyword, ast.stmt)):
                self.uses_in(c, env, facts, fn, stmt, ctx)

    def sink(self, pv: _Pieces, facts, fn, stmt):
        mf, ms, mctx = pv.made
        self.sunk.add(pv.split)
        self.note('dec', mctx, mf, ms, pv.decoded or facts.get('clean') is True,
                  'undecoded pieces reach %s (nothing on the path proves the value free of what decode() rewrites)' % short(stmt, 80))
        kb = facts.get('keep_blank')
        self.note('blank', mctx, mf, ms, kb is not None and pv.filtered == (kb is False),
                  'pieces %s reach %s; keep_blank is %s there' % ('with the blank ones dropped' if pv.filtered else 'including blank ones', short(stmt, 80),
                                                                  'not decided' if kb is None else kb))

    # ---- branches
    def edge_facts(self, test, truth, env, facts, cx):
        flags, base_supers = cx
        new = dict(facts)
        for nm, val in _flag_facts(test, truth, env).items():
            if new.get(nm) is not None and new[nm] != val:
                return None
            new[nm] = val
        if not new.get('clean'):
            supers = set(base_supers) | {k for k, v in env.items() if v is _RAW}
            if all(_eval3(test, cell, supers, flags) is (not truth) for cell in self.dirty):
                new['clean'] = True
        return new

    # ---- helper look-through
    def inline(self, g: Func, call, env, facts, fn, stmt, ctx, depth, cx):
        if depth >= self.MAX_DEPTH:
            raise UnknownIdiom('%s: helper chain too deep at %s' % (fn.qual, short(call, 60)))
        if g.is_async or g.decorators or g.cls is not None:
            raise UnknownIdiom('%s: the undecoded value is handed to %s (not a plain module-level helper)' % (fn.qual, g.qual))
        a = g.node.args
        if a.vararg or a.kwarg or any(isinstance(x, ast.Starred) for x in call.args) or any(k.arg is None for k in call.keywords):
            raise UnknownIdiom('%s: star arguments at %s' % (fn.qual, short(call, 60)))
        params = g.params()
        bound = dict(zip(params, call.args))
        for k in call.keywords:
            if k.arg not in params or k.arg in bound:
                raise UnknownIdiom('%s: cannot bind %s' % (fn.qual, short(call, 60)))
            bound[k.arg] = k.value
        if len(call.args) > len(params):
            raise UnknownIdiom('%s: cannot bind %s' % (fn.qual, short(call, 60)))
        flags, base_supers = cx
        supers = set(base_supers) | {k for k, v in env.items() if v is _RAW}
        genv, gflags = {}, {}
        for pn, arg in bound.items():
            v = self.aeval(arg, env, facts, fn, stmt, ctx)
            if v is not None:
                genv[pn] = v
                continue
            tbl = {cell: _eval3(arg, cell, supers, flags) for cell in self.dirty}
            if any(x is not None for x in tbl.values()):
                gflags[pn] = tbl
        for pn in params:
            if pn not in bound and any(isinstance(x, ast.Name) and x.id == pn for x in ast.walk(g.node) if not isinstance(x, ast.arg)):
                raise UnknownIdiom('%s: %s relies on the default of %s' % (fn.qual, short(call, 60), pn))
        gcfg = cfg_of(g, self.p)
        self.run.use_cfg(gcfg)
        returns = []
        gctx = ctx + ((fn.qual, id(call)),)
        self.walk(g, gcfg, [y for (y, l) in gcfg.succ[gcfg.entry] if l != 'exc'], genv, facts, set(), gctx, depth + 1, returns, gflags, set())
        if not returns:
            raise UnknownIdiom('%s: helper %s never returns' % (fn.qual, g.qual))
        return returns

    # ---- the walk
    def walk(self, fn, cfg, starts, env, facts, stop, ctx, depth, returns, flags, base_supers):
        cx = (flags, base_supers)
        stack = [(s, env, facts, frozenset()) for s in starts]
        while stack:
            nid, env, facts, seen = stack.pop()
            self.steps += 1
            if self.steps > self.MAX_STEPS:
                raise UnknownIdiom('%s: too many paths through the value handling' % fn.qual)
            if nid in stop or nid in seen or nid == cfg.xexit:
                continue
            if nid == cfg.exit:
                if returns is not None:
                    returns.append((None, facts))
                continue
            n = cfg.node(nid)
            seen = seen | {nid}
            nxt = [(y, l) for (y, l) in cfg.succ[nid] if l != 'exc']
            if n.kind == 'test':
                for (y, l) in nxt:
                    if l in ('T', 'F'):
                        fx = self.edge_facts(n.ast, l == 'T', env, facts, cx)
                        if fx is not None:
                            stack.append((y, env, fx, seen))
                    else:
                        stack.append((y, env, facts, seen))
                continue
            outs = [(env, facts)]
            if n.kind == 'stmt':
                a = n.ast
                if isinstance(a, (ast.Assign, ast.AnnAssign)) and a.value is not None:
                    targets = a.targets if isinstance(a, ast.Assign) else [a.target]
                    outs = []
                    for val, fx in self.eval_multi(a.value, env, facts, fn, a, ctx, depth, cx):
                        e2 = dict(env)
                        for t in targets:
                            if isinstance(t, ast.Name):
                                e2.pop(t.id, None)
                                if val is not None:
                                    e2[t.id] = val
                            elif isinstance(t, (ast.Tuple, ast.List)):
                                if val is not None or self.tracked(a.value, env):
                                    raise UnknownIdiom('%s: unpacking at %s' % (fn.qual, short(a, 80)))
                                for x in ast.walk(t):
                                    if isinstance(x, ast.Name):
                                        e2.pop(x.id, None)
                            else:
                                if isinstance(val, _Pieces):
                                    self.sink(val, fx, fn, a)
                                self.uses_in(t, env, fx, fn, a, ctx)
                        outs.append((e2, fx))
                elif isinstance(a, ast.Return):
                    if a.value is None:
                        res = [(None, facts)]
                    else:
                        res = self.eval_multi(a.value, env, facts, fn, a, ctx, depth, cx)
                    if returns is not None:
                        returns.extend(res)
                    else:
                        for val, fx in res:
                            if isinstance(val, _Pieces):
                                self.sink(val, fx, fn, a)
                    continue
                elif isinstance(a, (ast.FunctionDef, ast.AsyncFunctionDef, ast.ClassDef)):
                    if self.tracked(a, env):
                        raise UnknownIdiom('%s: nested definition uses the value: %s' % (fn.qual, a.name))
                else:
                    self.uses_in(a, env, facts, fn, a, ctx)
                    if isinstance(a, ast.AugAssign) and isinstance(a.target, ast.Name) and a.target.id in env:
                        e2 = dict(env)
                        e2.pop(a.target.id)
                        outs = [(e2, facts)]
                    if isinstance(a, ast.Delete):
                        e2 = dict(env)
                        for t in a.targets:
                            if isinstance(t, ast.Name):
                                e2.pop(t.id, None)
                        outs = [(e2, facts)]
            elif n.kind == 'iter':
                if self.tracked(n.stmt.iter, env):
                    raise UnknownIdiom('%s: explicit loop over %s' % (fn.qual, short(n.stmt.iter, 60)))
                e2 = dict(env)
                for x in ast.walk(n.stmt.target):
                    if isinstance(x, ast.Name):
                        e2.pop(x.id, None)
                outs = [(e2, facts)]
            elif n.kind == 'with':
                e2 = dict(env)
                for it in n.stmt.items:
                    if self.tracked(it.context_expr, env):
                        raise UnknownIdiom('%s: with-statement over the value' % fn.qual)
                    if it.optional_vars is not None:
                        for x in ast.walk(it.optional_vars):
                            if isinstance(x, ast.Name):
                                e2.pop(x.id, None)
                outs = [(e2, facts)]
            for (e2, fx) in outs:
                for (y, _l) in nxt:
                    stack.append((y, e2, fx, seen))


def _shortcut_model(p, f: Func, cfg, qs, kname, vname, field):
    """R15's model of the "nothing to decode" guards of parse_query_string: the fast-path flags (locals bound once
    to a boolean combination of character tests on the query string / the field), the names that are superstrings
    of every value, and the cells {has '%'} x {has '+'} a value with something to decode can be in."""
    chars = _decoder_sensitive_chars(p)
    params = f.params()
    binds: Dict[str, list] = {}
    for n in cfg.live_nodes():
        for d in node_defs(n):
            binds.setdefault(d.name, []).append(d)
    supers_all = set()
    if not binds.get(qs):
        supers_all.add(qs)
    if field and len(binds.get(field, ())) == 1 and binds[field][0].how == 'for':
        supers_all.add(field)

    def mentions_super(e) -> bool:
        return any(isinstance(x, ast.Name) and x.id in supers_all for x in ast.walk(e))

    flags: Dict[str, ast.AST] = {}

    def readable(e) -> bool:
        if isinstance(e, ast.Constant):
            return True
        if isinstance(e, ast.UnaryOp) and isinstance(e.op, ast.Not):
            return readable(e.operand)
        if isinstance(e, ast.BoolOp):
            return all(readable(v) for v in e.values)
        if isinstance(e, ast.Name):
            return e.id in flags or not mentions_super(e)
        if isinstance(e, ast.Compare) and len(e.ops) == 1 and isinstance(e.ops[0], (ast.In, ast.NotIn)) and isinstance(e.left, ast.Constant) \
                and isinstance(e.comparators[0], ast.Name):
            return True
        return not mentions_super(e)

    cands: Dict[str, ast.AST] = {}
    for nm, ds in binds.items():
        if nm in params or nm in (kname, vname, field) or len(ds) != 1 or ds[0].value is None or ds[0].how != 'assign':
            continue
        v = ds[0].value
        if isinstance(v, (ast.Compare, ast.BoolOp, ast.Name)) or (isinstance(v, ast.UnaryOp) and isinstance(v.op, ast.Not)) \
                or (isinstance(v, ast.Constant) and isinstance(v.value, bool)) \
                or (isinstance(v, ast.Call) and isinstance(v.func, ast.Name) and v.func.id in ('any', 'all', 'bool')):
            cands[nm] = v
    grew = True
    while grew:
        grew = False
        for nm, v in cands.items():
            if nm in flags:
                continue
            if isinstance(v, ast.Constant) or mentions_super(v) or any(isinstance(x, ast.Name) and x.id in flags for x in ast.walk(v)):
                flags[nm] = v
                grew = True
    for nm, v in flags.items():
        if not readable(v):
            raise UnknownIdiom('%s: the fast-path flag %s = %s is not a boolean combination of character tests' % (PQS, nm, short(v, 80)))
    for n in cfg.live_nodes():
        if n.kind == 'test' and n.ast is not None and mentions_super(n.ast) and not readable(n.ast):
            raise UnknownIdiom('%s: guard %s reads the query string in a way this rule has no model for' % (PQS, short(n.ast, 80)))
    dirty = [frozenset(c) for k in range(1, len(chars) + 1) for c in itertools.combinations(chars, k)]
    return flags, supers_all, dirty, chars


# ---------------------------------------------------------------------------
# R2 totality
# ---------------------------------------------------------------------------

def r2_total(run):
    p = run.project
    E = SiteEscape(p)
    quals = [PQS, DECODE]
    m = p.module('falcon.util.uri')
    for name in sorted(m.functions):
        if name.startswith('_join_tokens'):
            quals.append('falcon.util.uri.' + name)
    if len(quals) < 4:
        raise AnchorError('expected parse_query_string, decode and two _join_tokens_* variants, found %s' % quals)
    offenders = {}
    for q in quals:
        f = p.func(q)
        run.use(f)
        summ = E.summary(f)
        if not summ:
            run.ok('%s cannot raise on any str input (escape set empty)' % q, f.loc(), q)
        for k, chain in sorted(summ.items()):
            cls, org = split_key(k)
            o = offenders.setdefault((cls, org), {'chain': chain, 'funcs': []})
            o['funcs'].append(q)
            if len(chain) < len(o['chain']):
                o['chain'] = chain
    for (cls, org), d in sorted(offenders.items()):
        o = d['chain'][-1]
        run.fail('%s may escape %s: query-string parsing is not total' % (cls, ', '.join(d['funcs'])), p.funcs.get(getattr(o, 'fq', ''), getattr(o, 'fq', quals[0])),
                 getattr(o, 'cons', org), where=o[0], witness=['%s  %s' % (w[0], w[1]) for w in d['chain']],
                 runtime_witness='a query string on which building the Request raises %s' % cls)
    run.extra['c08_r2_escape'] = {'conversion_sites': E.sites_seen, 'calls_resolved': E.calls_resolved, 'exemptions_used': E.exempt_used}


# ---------------------------------------------------------------------------
# R3 getter template
# ---------------------------------------------------------------------------

def _none_fact(test, truth, var) -> Optional[bool]:
    """True: var is known not-None; False: known None; None: unknown.
    Plain truthiness of var is reported as 'truthy' (not the same thing)."""
    def _none(x):
        return isinstance(x, ast.Constant) and x.value is None

    # `var is None` and the same comparison written the other way round (`None is var`)
    if isinstance(test, ast.Compare) and len(test.ops) == 1 and ((_is_name(test.left, var) and _none(test.comparators[0]))
                                                                  or (_none(test.left) and _is_name(test.comparators[0], var))):
        if isinstance(test.ops[0], (ast.IsNot, ast.NotEq)):
            return truth
        if isinstance(test.ops[0], (ast.Is, ast.Eq)):
            return not truth
    if isinstance(test, ast.UnaryOp) and isinstance(test.op, ast.Not):
        return _none_fact(test.operand, not truth, var)
    if isinstance(test, ast.BoolOp):
        if isinstance(test.op, ast.And) and truth:
            for v in test.values:
                r = _none_fact(v, True, var)
                if r is not None:
                    return r
        if isinstance(test.op, ast.Or) and not truth:
            for v in test.values:
                r = _none_fact(v, False, var)
                if r is not None:
                    return r
    return None


def _raise_class(p, f, r: ast.Raise) -> Optional[str]:
    if r.exc is None:
        return None
    e = r.exc.func if isinstance(r.exc, ast.Call) else r.exc
    return p.resolve_expr(f.module, e, f)


# result types of a getter whose every instance is truthy, so that `if res:` / `if not res:` on an Optional[T] result
# decides exactly `res is not None` / `res is None` (one line of reason each)
_ALWAYS_TRUTHY_TYPES = {
    'datetime.datetime': 'datetime defines neither __bool__ nor __len__ (midnight is truthy since Python 3.5)',
    'datetime.date': 'date defines neither __bool__ nor __len__',
    'uuid.UUID': 'UUID defines neither __bool__ nor __len__ (the nil UUID is truthy)',
}
# result types with a falsy instance a PRESENT parameter can produce
_FALSY_WITNESS = {
    'builtins.str': "'' (`?x=` under the default keep_blank_qs_values=True)",
    'builtins.int': '0 (`?x=0`)',
    'builtins.float': '0.0 (`?x=0`)',
    'builtins.bool': 'False (`?x=false`)',
    'builtins.list': '[] (an empty list)', 'typing.List': '[] (an empty list)',
    'builtins.dict': '{} (`?x={}`)', 'typing.Dict': '{} (`?x={}`)',
    'typing.Any': '0 / false / null / "" / [] / {} (`?x=0`)',
}
_UNION_HEADS = ('typing.Optional', 'typing.Union')


_MAPPING_MUTATORS = ('update', 'setdefault', 'pop', 'popitem', 'clear', '__setitem__', '__delitem__', '__ior__')


def _present_result_falsy(p, g: Func) -> Optional[str]:
    """Can the value the getter `g` returns for a PRESENT parameter be falsy?  Read from the declared result type of `g`
    (`Optional[T]`: `None` is the absent case, T the present one): a witness text when some member of T has a falsy
    instance, None when every member is always truthy; a type outside the two tables is not judged (UnknownIdiom)."""
    ann = g.node.returns
    if ann is None:
        raise UnknownIdiom('%s: no declared result type (needed to judge a truthiness test of its result)' % g.qual)

    def leaves(a):
        if isinstance(a, ast.Constant):
            if a.value is None:
                return []
            if isinstance(a.value, str):
                try:
                    return leaves(ast.parse(a.value, mode='eval').body)
                except SyntaxError:
                    raise UnknownIdiom('%s: result type %r not parseable' % (g.qual, a.value))
            raise UnknownIdiom('%s: result type %s not understood' % (g.qual, short(a)))
        if isinstance(a, ast.BinOp) and isinstance(a.op, ast.BitOr):
            return leaves(a.left) + leaves(a.right)
        if isinstance(a, ast.Subscript):
            if p.resolve_expr(g.module, a.value, g) in _UNION_HEADS:
                return [x for e in (a.slice.elts if isinstance(a.slice, ast.Tuple) else [a.slice]) for x in leaves(e)]
            return [a.value]        # List[str], Dict[str, Any]: the container decides truthiness
        if isinstance(a, (ast.Name, ast.Attribute)):
            return [a]
        raise UnknownIdiom('%s: result type %s not understood' % (g.qual, short(a)))

    wit = None
    for leaf in leaves(ann):
        q = p.resolve_expr(g.module, leaf, g)
        if q in _ALWAYS_TRUTHY_TYPES:
            continue
        if q in _FALSY_WITNESS:
            wit = wit or _FALSY_WITNESS[q]
            continue
        raise UnknownIdiom('%s: truthiness of the result type %s is not tabled' % (g.qual, short(leaf)))
    return wit


def _last_occurrence_split(run, f: Func, g: Func, tag: str) -> bool:
    """The `isinstance(<v>, list)` case split that picks one occurrence of a repeated parameter, read in `g` (the getter
    `f` itself or a one-parameter module-level helper `f` hands the table entry to).  Reports, for `f`'s template, that
    the list arm takes `[-1]`.  False when `g` holds no such split.  Shapes: `if isinstance(v, list): v = v[-1]`,
    `v[-1] if isinstance(v, list) else v`, and in a helper `if isinstance(v, list): return v[-1]` with every other
    return handing back `v` itself."""
    def _isinst_list(x):
        return isinstance(x, ast.Call) and _is_name(x.func, 'isinstance') and len(x.args) == 2 and _is_name(x.args[1], 'list')

    helper = g is not f
    where_fn = g
    what = '%s: of a repeated parameter the LAST occurrence is converted' % tag
    iso = [n for n in walk_no_nested(g.node) if isinstance(n, ast.If) and any(_isinst_list(x) for x in walk_self(n.test))]
    iso_exp = [n for n in walk_no_nested(g.node) if isinstance(n, ast.IfExp) and any(_isinst_list(x) for x in walk_self(n.test))]
    if not iso and not iso_exp:
        return False
    if helper:
        hp = g.params()[0]
        if any(isinstance(x, ast.Name) and x.id == hp and isinstance(x.ctx, (ast.Store, ast.Del)) for x in ast.walk(g.node)
               if not any(isinstance(s, ast.Assign) and x in s.targets and isinstance(s.value, ast.Subscript) and _is_name(s.value.value, hp)
                          for n in iso for s in n.body)):
            raise UnknownIdiom('%s: the helper %s re-binds its parameter' % (f.qual, g.qual))
    for node in iso_exp:
        # `<v>[-1] if isinstance(<v>, list) else <v>` (either polarity): the same split as an expression
        call = [x for x in walk_self(node.test) if _isinst_list(x)][0]
        var = call.args[0]
        if not isinstance(var, ast.Name) or (helper and var.id != hp):
            raise UnknownIdiom('%s: isinstance on %s' % (g.qual, short(var)))
        islist = implied(node.test, True, lambda e: e is call)
        if islist is None:
            raise UnknownIdiom('%s: list case split %s not understood' % (g.qual, short(node.test)))
        arm_list, arm_one = (node.body, node.orelse) if islist else (node.orelse, node.body)
        if not (isinstance(arm_list, ast.Subscript) and _is_name(arm_list.value, var.id) and not isinstance(arm_list.slice, ast.Slice)
                and (_is_name(arm_one, var.id) or (isinstance(arm_one, ast.List) and len(arm_one.elts) == 1 and _is_name(arm_one.elts[0], var.id)))):
            raise UnknownIdiom('%s: list case split %s not understood' % (g.qual, short(node, 80)))
        run.check(short(arm_list.slice) == '-1', what, where_fn, node, runtime_witness='?x=1&x=2 read as 1')
    list_returns = set()
    for node in iso:
        call = [x for x in walk_self(node.test) if isinstance(x, ast.Call) and _is_name(x.func, 'isinstance')][0]
        var = call.args[0]
        if not isinstance(var, ast.Name) or (helper and var.id != hp):
            raise UnknownIdiom('%s: isinstance on %s' % (g.qual, short(var)))
        islist = implied(node.test, True, lambda e: e is call)
        handled = False
        for s in node.body:
            # a chained assignment (`v = other = [v]`) binds `v` to the same value; what the other targets are is judged by
            # the clause that owns them (a store into the parameter mapping: _getter (f))
            if isinstance(s, ast.Assign) and any(_is_name(t, var.id) for t in s.targets) \
                    and all(isinstance(t, (ast.Name, ast.Subscript, ast.Attribute)) for t in s.targets):
                v = s.value
                if islist is True and isinstance(v, ast.Subscript) and _is_name(v.value, var.id) and not isinstance(v.slice, ast.Slice):
                    handled = True
                    run.check(short(v.slice) == '-1', what, where_fn, s, runtime_witness='?x=1&x=2 read as 1')
                elif islist is False and isinstance(v, ast.List) and len(v.elts) == 1 and _is_name(v.elts[0], var.id):
                    handled = True
                    run.ok('%s: a single occurrence is wrapped into a list (all occurrences are kept)' % tag, g.loc(s), s)
            elif helper and islist is True and isinstance(s, ast.Return) and isinstance(s.value, ast.Subscript) and _is_name(s.value.value, var.id) \
                    and not isinstance(s.value.slice, ast.Slice) and len(node.body) == 1:
                handled = True
                list_returns.add(id(s))
                run.check(short(s.value.slice) == '-1', what, where_fn, s, runtime_witness='?x=1&x=2 read as 1')
        if not handled:
            raise UnknownIdiom('%s: list case split %s not understood' % (g.qual, short(node.test)))
    if helper:
        # what the helper hands back otherwise is the entry itself (or, for the expression form, the split expression)
        for r in [x for x in walk_no_nested(g.node) if isinstance(x, ast.Return)]:
            if id(r) in list_returns:
                continue
            if not (_is_name(r.value, hp) or any(r.value is e for e in iso_exp)):
                raise UnknownIdiom('%s: the helper %s returns %s' % (f.qual, g.qual, short(r.value, 60)))
    return True


def _getter(run, p, E, f: Func, cls):
    # a block of the template (the min / max range check, the store hook) may live in a plain module-level helper called
    # as a statement (`_check_param_bounds(name, val, min_value, max_value)`): the getter is read with the helper's
    # statements in place of the call; the escape summary follows the call itself
    f0 = f
    f = inline_stmt_helpers(p, f)
    if f is not f0:
        for c in walk_no_nested(f0.node):
            if isinstance(c, ast.Call):
                h = p.resolve_callable(f0, c.func)
                if isinstance(h, Func) and h.cls is None and h.module is f0.module:
                    run.use(h)
    cfg = cfg_of(f, p)
    run.use_cfg(cfg)
    params = f.params()
    if len(params) < 2:
        raise AnchorError('%s has no name parameter' % f.qual)
    name = params[1]
    for need in ('required', 'store', 'default'):
        if need not in params:
            raise AnchorError('%s: keyword parameter `%s` not found' % (f.qual, need))
    tag = f.name

    # ---- which kind of getter
    table_reads = [n for n in walk_no_nested(f.node) if isinstance(n, ast.Subscript) and isinstance(n.ctx, ast.Load)
                   and (table_of(f, n.value) or ('', ''))[0] == 'params']
    deleg = [n for n in walk_no_nested(f.node) if isinstance(n, ast.Call) and isinstance(n.func, ast.Attribute)
             and isinstance(n.func.value, ast.Name) and n.func.value.id == 'self' and n.func.attr.startswith('get_param')]
    if bool(table_reads) == bool(deleg):
        raise UnknownIdiom('%s: neither a direct nor a delegating getter' % f.qual)

    def present_cls(e) -> int:
        if (isinstance(e, ast.Compare) and len(e.ops) == 1 and isinstance(e.ops[0], (ast.In, ast.NotIn)) and _is_name(e.left, name)
                and (table_of(f, e.comparators[0]) or ('', ''))[0] == 'params'):
            return 1 if isinstance(e.ops[0], ast.In) else -1
        return 0

    # EAFP presence: `try: x = params[name]` (the only statement of the body) `except KeyError: <absent arm>` -- a dict
    # subscription raises KeyError iff the key is absent, so the handler is the "absent" arm and the normal completion of
    # the read the "present" one (the same case split as `if name in params`)
    eafp = []      # (try, lookup node ids, handler node ids)
    for t in [n for n in walk_no_nested(f.node) if isinstance(n, ast.Try)]:
        hs = [h for h in t.handlers if h.type is None or any(
            p.resolve_expr(f.module, ht, f) in ('builtins.KeyError', 'builtins.LookupError', 'builtins.Exception', 'builtins.BaseException')
            for ht in (h.type.elts if isinstance(h.type, ast.Tuple) else [h.type]))]
        reads = [r for r in table_reads if any(x is r for st in t.body for x in ast.walk(st))]
        if not hs or not reads:
            continue
        exact = (len(t.body) == 1 and len(reads) == 1 and _is_name(reads[0].slice, name) and len(hs) == 1 and hs[0] is t.handlers[0]
                 and hs[0].type is not None and p.resolve_expr(f.module, hs[0].type, f) in ('builtins.KeyError', 'builtins.LookupError')
                 and isinstance(t.body[0], (ast.Assign, ast.AnnAssign, ast.Expr))
                 # nothing else in the statement can raise KeyError / fail
                 and sum(1 for x in ast.walk(t.body[0]) if isinstance(x, (ast.Subscript, ast.Call))) == 1)
        if not exact:
            raise UnknownIdiom('%s: the parameter table is read inside a try whose %s arm is not read as the "absent" case: %s'
                               % (f.qual, short(hs[0].type, 30) if hs[0].type is not None else 'bare except', short(t.body[0], 60)))
        eafp.append((t, [i for i in cfg.nodes_for(t.body[0]) if not cfg.node(i).copy],
                     [n.id for n in cfg.live_nodes() if n.kind == 'handler' and n.ast is hs[0]]))
    eafp_handlers = {id(t.handlers[0]) for t, _l, _h in eafp}

    def presence(nid) -> Optional[bool]:
        r = polar_fact(cfg, nid, present_cls)
        if r is not None:
            return r
        for t, look, hnd in eafp:
            if hnd and flow.dominated_by_nodes(cfg, nid, hnd):
                return False
            ok_edges = [(a, b, l) for a in look for (b, l) in cfg.succ[a] if l != 'exc']
            if ok_edges and nid not in look and nid not in flow.reachable(cfg, [cfg.entry], avoid_edges=ok_edges):
                return True
        return None

    # ---- (a) last occurrence
    if table_reads:
        if not _last_occurrence_split(run, f, f, tag):
            # the case split may live in a plain module-level helper that is handed the table entry
            # (`x = _last_value(params[name])`): the helper is read in place of the inline split
            helpers = []
            for c in walk_no_nested(f.node):
                if not (isinstance(c, ast.Call) and len(c.args) == 1 and not c.keywords):
                    continue
                a = c.args[0]
                if isinstance(a, ast.Name):
                    binds = [n for n in walk_no_nested(f.node) if isinstance(n, ast.Assign) and any(_is_name(t, a.id) for t in n.targets)]
                    a = binds[0].value if len(binds) == 1 else a
                if not any(a is t for t in table_reads):
                    continue
                h = p.resolve_callable(f, c.func)
                if isinstance(h, Func) and h.cls is None and h.parent is None and not h.is_async and not h.decorators \
                        and len(h.params()) == 1 and not (h.node.args.vararg or h.node.args.kwarg or h.node.args.kwonlyargs) \
                        and not any(isinstance(x, (ast.Yield, ast.YieldFrom, ast.Global, ast.Nonlocal)) for x in ast.walk(h.node)):
                    helpers.append(h)
            found = False
            for h in {id(h): h for h in helpers}.values():
                run.use(h)
                found = _last_occurrence_split(run, f, h, tag) or found
            if not found:
                raise UnknownIdiom('%s: no isinstance(<value>, list) case split' % f.qual)

    # ---- (b) only the documented 400-class errors escape; handlers report HTTPInvalidParam
    summ = E.summary(f0, cls)
    bad = []
    for k, chain in summ.items():
        c, org = split_key(k)
        if c.startswith('?'):
            raise UnknownIdiom('%s raises an expression of unknown class %s' % (f.qual, c))
        if not (p.is_subclass(c, INVALID_PARAM) is True or p.is_subclass(c, MISSING_PARAM) is True):
            bad.append((c, chain))
    if not bad:
        run.ok('%s: only HTTPInvalidParam / HTTPMissingParam can escape' % tag, f.loc(), f.qual)
    for c, chain in bad:
        o = chain[-1]
        run.fail('%s: %s escapes instead of the documented HTTPInvalidParam' % (tag, c), p.funcs.get(getattr(o, 'fq', f.qual), f),
                 getattr(o, 'cons', c), where=o[0], witness=['%s  %s' % (w[0], w[1]) for w in chain],
                 runtime_witness='a parameter value for which %s() raises %s (a 500) instead of answering 400' % (f.name, c.rsplit('.', 1)[-1]))
    for h in [n for n in walk_no_nested(f.node) if isinstance(n, ast.ExceptHandler)]:
        if id(h) in eafp_handlers:
            continue        # the "parameter absent" arm of an EAFP read: judged under (d)
        last = h.body[-1] if h.body else None
        if not isinstance(last, (ast.Raise, ast.Return, ast.Pass, ast.Continue, ast.Break, ast.Assign)):
            raise UnknownIdiom('%s: except arm ends with %s' % (f.qual, short(last, 60)))
        rc = _raise_class(p, f, last) if isinstance(last, ast.Raise) else None
        run.check(rc is not None and p.is_subclass(rc, INVALID_PARAM) is True,
                  '%s: a failed conversion is reported as HTTPInvalidParam' % tag, f, h.type if h.type is not None else 'except',
                  where=f.loc(h), runtime_witness='an unparsable value silently read as the default / reported with another error')

    # ---- (c) store discipline
    _rd_cache = []

    def _rd():
        if not _rd_cache:
            _rd_cache.append(ReachingDefs(cfg))
        return _rd_cache[0]

    def store_known_set(nid) -> Optional[bool]:
        for test, truth in branch_facts(cfg, nid):
            r = _none_fact(test, truth, 'store')
            if r is not None:
                return r
        return None

    stores = [n for n in cfg.live_nodes() if n.kind == 'stmt' and isinstance(n.ast, ast.Assign)
              and any(isinstance(t, ast.Subscript) and _is_name(t.value, 'store') for t in n.ast.targets)]
    rets = [n for n in cfg.live_nodes() if n.kind == 'stmt' and isinstance(n.ast, ast.Return)]
    success = [n for n in rets if n.ast.value is not None and not _is_name(n.ast.value, 'default')
               and not (isinstance(n.ast.value, ast.Constant) and n.ast.value.value is None)]
    if not success:
        raise UnknownIdiom('%s: no value-returning path' % f.qual)
    if not stores:
        uses = [x for x in walk_no_nested(f.node) if _is_name(x, 'store')]
        handed_on = {id(x) for c in deleg for a in list(c.args) + [k.value for k in c.keywords] for x in walk_self(a) if _is_name(x, 'store')}
        if uses and not all(id(x) in handed_on for x in uses):
            raise UnknownIdiom('%s: `store` is used, but not through a `store[name] = value` statement' % f.qual)
        if not uses:
            run.fail('%s: the `store` argument is ignored' % tag, f, 'store-unused', runtime_witness='store={} stays empty after a successful call')
        # else: `store` is only handed on to the delegate getter -- decided below (the delegate records ITS value, not this getter's)
    for sn in stores:
        tgt = [t for t in sn.ast.targets if isinstance(t, ast.Subscript)][0]
        run.check(_is_name(tgt.slice, name), '%s: the value is stored under the parameter name' % tag, f, sn.ast)
        run.check(store_known_set(sn.id) is True, '%s: store[...] is written only when a store was passed (`store is not None`)' % tag, f, sn.ast,
                  runtime_witness='store={} (empty dict) is left empty, or store=None raises TypeError')
        after = flow.reachable(cfg, [sn.id])
        later_fail = [cfg.node(i) for i in after if i != sn.id and (
            (cfg.node(i).kind == 'stmt' and isinstance(cfg.node(i).ast, ast.Raise)) or cfg.node(i).kind == 'handler')]
        run.check(not later_fail, '%s: the value is stored on the success path only (nothing can fail after the store)' % tag, f, sn.ast,
                  witness=['%s:%s %s' % (f.file, n.lineno, n.text()) for n in later_fail[:3]],
                  runtime_witness='store receives a value although the getter then raises HTTPInvalidParam')
        ret_after = [cfg.node(i) for i in after if cfg.node(i).kind == 'stmt' and isinstance(cfg.node(i).ast, ast.Return)]
        # the same expression AND the same value: no name of it is re-bound between the store and the return
        rebound = []
        for r in ret_after:
            if r.ast.value is None or short(r.ast.value) != short(sn.ast.value):
                continue
            for nm in sorted({x.id for x in walk_self(sn.ast.value) if isinstance(x, ast.Name)}):
                if [id(d) for d in _rd().at(sn.id, nm)] != [id(d) for d in _rd().at(r.id, nm)]:
                    rebound.append('`%s` is re-bound between the store and `%s` (%s)' % (nm, short(r.ast, 60), '; '.join(
                        sorted({short(d.stmt, 60) if getattr(d, 'stmt', None) is not None else nm for d in _rd().at(r.id, nm)
                                if id(d) not in [id(x) for x in _rd().at(sn.id, nm)]}))))
        run.check(bool(ret_after) and all(r.ast.value is not None and short(r.ast.value) == short(sn.ast.value) for r in ret_after) and not rebound,
                  '%s: what is stored is what is returned (the same expression over the same bindings)' % tag, f, sn.ast,
                  witness=['returns %s' % short(r.ast.value) for r in ret_after] + rebound,
                  runtime_witness='store[name] differs from the returned value (the unconverted string; for ?id=1&id=2 the whole list '
                                  "['1', '2'] while '2' is returned)")
    # every path to a successful return either writes the returned value into the store or passes a branch outcome that
    # says no store was handed in (`if store is not None: store[name] = v` / `if store is None: return v` + store + return)
    no_store_edges = set()
    for t in cfg.live_nodes():
        if t.kind != 'test' or t.ast is None:
            continue
        for (y, l) in cfg.succ[t.id]:
            if l in ('T', 'F') and _none_fact(t.ast, l == 'T', 'store') is False:
                no_store_edges.add((t.id, y, l))
    for rn in success:
        writes = [sn.id for sn in stores if short(sn.ast.value) == short(rn.ast.value)]
        path = flow.find_path(cfg, [cfg.entry], [rn.id], avoid_nodes=writes, avoid_edges=no_store_edges, edge_filter=flow.no_exc) if writes else None
        run.check(bool(writes) and path is None, '%s: every successful return passes the `store is not None` hook first' % tag, f, rn.ast,
                  witness=flow.describe_path(cfg, path)[-8:] if path else None,
                  runtime_witness='a path on which the converted value is returned but never put into store')
    for c in deleg:
        uses_store = any(_is_name(x, 'store') for a in list(c.args) + [k.value for k in c.keywords] for x in walk_self(a))
        run.check(not uses_store, '%s: the delegate getter is not handed the store (it would record the unconverted value even on failure)' % tag, f, c)

    # ---- (d) default / missing
    def required_atom(e):
        return _is_name(e, 'required')

    dret = [n for n in rets if _is_name(n.ast.value, 'default')]
    if not dret:
        raise UnknownIdiom('%s: `return default` not found' % f.qual)
    if table_reads:
        for n in dret:
            pres = presence(n.id)
            req = fact_value(cfg, n.id, required_atom)
            run.check(pres is False and req is False, '%s: default is returned only when the parameter is absent and not required' % tag, f, n.ast,
                      where='%s:%s' % (f.file, n.lineno), witness=['present=%s required=%s' % (pres, req)],
                      runtime_witness='required=True and a missing parameter returns the default instead of raising HTTPMissingParam')
        miss = [n for n in cfg.live_nodes() if n.kind == 'stmt' and isinstance(n.ast, ast.Raise)
                and (_raise_class(p, f, n.ast) or '') and p.is_subclass(_raise_class(p, f, n.ast), MISSING_PARAM) is True]
        if not miss:
            raise UnknownIdiom('%s: `raise HTTPMissingParam` not found' % f.qual)
        for n in miss:
            pres = presence(n.id)
            req = fact_value(cfg, n.id, required_atom)
            run.check(pres is False and req is True, '%s: HTTPMissingParam is raised only when the parameter is absent and required' % tag, f, n.ast,
                      where='%s:%s' % (f.file, n.lineno), witness=['present=%s required=%s' % (pres, req)],
                      runtime_witness='required=False and a missing parameter raises HTTPMissingParam instead of returning the default')
        for n in success:
            pres = presence(n.id)
            run.check(pres is True, '%s: a value is returned only when the parameter is present' % tag, f, n.ast, where='%s:%s' % (f.file, n.lineno))
    else:
        # result variables of the delegate calls
        res_names = set()
        for n in walk_no_nested(f.node):
            if isinstance(n, ast.Assign) and any(n.value is c for c in deleg) and len(n.targets) == 1 and isinstance(n.targets[0], ast.Name):
                res_names.add(n.targets[0].id)
        if len(res_names) != 1:
            raise UnknownIdiom('%s: result of the delegate getter is not bound to one local' % f.qual)
        res = next(iter(res_names))
        for c in deleg:
            callee = effective_members(p, cls.qual).get(c.func.attr)
            if callee is None or callee.func is None:
                raise AnchorError('%s: delegate %s not found' % (f.qual, c.func.attr))
            cps = callee.func.params()[1:]
            given = dict(zip(cps, c.args))
            given.update({k.arg: k.value for k in c.keywords if k.arg})
            run.check(_is_name(given.get('required'), 'required') and 'default' not in given and _is_name(given.get(cps[0]), name),
                      '%s: name and `required` are passed on to %s, `default` is not' % (tag, c.func.attr), f, c,
                      runtime_witness='required=True is ignored (or the default is converted) by the typed getter')
        # the delegate reports "absent and not required" as None.  `res is None` says exactly that; plain falsiness of
        # `res` says it only when the delegate's result for a PRESENT parameter is always truthy (a datetime, a UUID): for
        # get_param (a str, '' for `?x=`), the int / float / bool / json getters a present falsy value would be misread
        # as absent -- the default is returned (even under required=True) instead of the value / HTTPInvalidParam
        def falsy_witness() -> Optional[str]:
            wit = None
            for c in deleg:
                wit = wit or _present_result_falsy(p, effective_members(p, cls.qual)[c.func.attr].func)
            return wit

        for n in dret:
            absent = None
            by_truth = None
            for test, truth in branch_facts(cfg, n.id):
                r = _none_fact(test, truth, res)
                if r is not None:
                    absent = (r is False)
                elif implied(test, truth, lambda e: _is_name(e, res)) is False:
                    by_truth = test
            if absent is None and by_truth is not None:
                wit = falsy_witness()
                run.check(wit is None, '%s: the missing-parameter arm is taken on absence (`%s is None`), never on the truthiness of a value '
                          'that can be falsy although the parameter is present' % (tag, res), f, by_truth, where='%s:%s' % (f.file, n.lineno),
                          witness=['`%s` is the result of %s, which for a present parameter can be %s' % (res, deleg[0].func.attr, wit)] if wit else None,
                          runtime_witness='a present parameter whose value is falsy (?%s=) gets the default back -- even with required=True -- '
                                          'instead of its value / HTTPInvalidParam' % name)
                if wit is None:
                    absent = True   # falsy result of an always-truthy type: exactly None
                else:
                    continue
            run.check(absent is True, '%s: default is returned only when the delegate reported the parameter absent' % tag, f, n.ast,
                      where='%s:%s' % (f.file, n.lineno))
        for n in success:
            known = None
            for test, truth in branch_facts(cfg, n.id):
                r = _none_fact(test, truth, res)
                if r is not None:
                    known = r
                elif implied(test, truth, lambda e: _is_name(e, res)) is True:
                    known = True
            run.check(known is True, '%s: a value is returned only when the delegate found the parameter' % tag, f, n.ast, where='%s:%s' % (f.file, n.lineno))

    # ---- (f) a getter only READS the request's parameter mapping: the one mapping it may write is the caller's `store`
    # (`items = params[name] = [items]`: after get_param_as_list('x') on `?x=1`, req.params['x'] is ['1'] instead of '1' and
    # the caller holds the request's own storage)
    def is_params(e) -> bool:
        return (table_of(f, e) or ('', ''))[0] == 'params'

    writes = []
    for n in walk_no_nested(f.node):
        tgts = []
        if isinstance(n, ast.Assign):
            tgts = n.targets
        elif isinstance(n, (ast.AugAssign, ast.AnnAssign)):
            tgts = [n.target] if not (isinstance(n, ast.AnnAssign) and n.value is None) else []
        elif isinstance(n, ast.Delete):
            tgts = n.targets
        elif isinstance(n, ast.NamedExpr):
            tgts = [n.target]
        elif isinstance(n, (ast.For, ast.AsyncFor)):
            tgts = [n.target]
        elif isinstance(n, ast.Call) and isinstance(n.func, ast.Attribute) and n.func.attr in _MAPPING_MUTATORS and is_params(n.func.value):
            writes.append(n)
        for t in tgts:
            for x in walk_self(t):
                if isinstance(x, ast.Subscript) and isinstance(x.ctx, (ast.Store, ast.Del)) and is_params(x.value):
                    writes.append(n)
                elif isinstance(x, ast.Attribute) and isinstance(x.ctx, (ast.Store, ast.Del)) and attr_chain(x) in TABLE_KINDS \
                        and TABLE_KINDS[attr_chain(x)] == 'params':
                    writes.append(n)
    if not writes:
        run.ok('%s: the request\'s parameter mapping is only read (the one mapping a getter writes is the caller\'s `store`)' % tag, f.loc(), f.qual)
    for n in {id(n): n for n in writes}.values():
        run.fail('%s: a getter never writes the request\'s parameter mapping (only the caller-supplied `store`)' % tag, f, n, where=f.loc(n),
                 runtime_witness='after the first call req.params / get_param() report another value for the same request, and the caller '
                                 'holds (and may mutate) the request\'s own storage')

    # ---- (e) bounds
    for bound, reject_op, accept_op, word in (('min_value', ast.Lt, ast.GtE, 'below'), ('max_value', ast.Gt, ast.LtE, 'above')):
        if bound not in params:
            continue
        cmps = []
        for t in cfg.live_nodes():
            if t.kind != 'test':
                continue
            for x in walk_self(t.ast):
                if (isinstance(x, ast.Compare) and len(x.ops) == 1 and isinstance(x.ops[0], (ast.Lt, ast.LtE, ast.Gt, ast.GtE))
                        and (_is_name(x.left, bound) != _is_name(x.comparators[0], bound))):
                    cmps.append((t, x))
        if not cmps:
            if any(_is_name(x, bound) for x in walk_no_nested(f.node)):
                raise UnknownIdiom('%s: %s is used, but not in a comparison inside a branch test' % (f.qual, bound))
            run.fail('%s: the %s bound is never compared with the value' % (tag, bound), f, 'bound:' + bound,
                     runtime_witness='%s=... has no effect' % bound)
            continue
        for t, x in cmps:
            op = type(x.ops[0])
            if _is_name(x.left, bound):  # normalise to  value OP bound
                op = {ast.Lt: ast.Gt, ast.Gt: ast.Lt, ast.LtE: ast.GtE, ast.GtE: ast.LtE}[op]
            verdicts = []
            for lab in ('T', 'F'):
                if raises_on(cfg, flow.edges_out(cfg, t.id, lab)):
                    v = implied(t.ast, lab == 'T', lambda e: e is x)
                    if v is True:
                        verdicts.append(op is reject_op)
                    elif v is False:
                        verdicts.append(op is accept_op)
            if not verdicts:
                raise UnknownIdiom('%s: comparison %s does not decide a rejection' % (f.qual, short(x)))
            run.check(all(verdicts), '%s: a value is rejected only when strictly %s %s (the bound itself is accepted)' % (tag, word, bound), f, x,
                      runtime_witness='%s=5 rejects the value 5' % bound)


def r3_getters(run):
    p = run.project
    E = SiteEscape(p)
    cls = p.cls(WSGI_REQ)
    mem = effective_members(p, WSGI_REQ)
    getters = sorted(n for n, m in mem.items() if n.startswith('get_param_as_') and m.func is not None and m.kind == 'method')
    if len(getters) < 8:
        raise AnchorError('expected at least 8 get_param_as_* getters, found %d' % len(getters))
    for n in getters:
        _getter(run, p, E, mem[n].func, cls)
    # get_param itself: last occurrence, store, default / missing
    gp = mem.get('get_param')
    if gp is None or gp.func is None:
        raise AnchorError('Request.get_param not found')
    _getter(run, p, E, gp.func, cls)
    run.extra['c08_r3_getters'] = getters + ['get_param']


# ---------------------------------------------------------------------------
# R4 to_query_str
# ---------------------------------------------------------------------------

def _list_accumulators(f: Func):
    """Locals of `f` used as an ordered text accumulator: bound once, to an empty list (`[]` / `list()`), every other
    occurrence is the receiver of a one-argument `.append(...)` statement, the sole argument of `<literal>.join(...)` or
    an emptiness / length test (`not pieces`, `if pieces`, `len(pieces)`), and there is exactly one such join.  -> (name -> the join's separator literal, name -> the join call).  (A list that is also sorted, sliced, indexed,
    handed on ... is not read as one: it is not in the result.)"""
    par = _parent_map(f.node)
    out: Dict[str, str] = {}
    out_join: Dict[str, ast.Call] = {}
    stores: Dict[str, list] = {}
    for n in walk_no_nested(f.node):
        if isinstance(n, ast.Name) and isinstance(n.ctx, (ast.Store, ast.Del)):
            stores.setdefault(n.id, []).append(n)
    for name, sts in stores.items():
        if len(sts) != 1 or name in f.params():
            continue
        st = par.get(id(sts[0]))
        if not (isinstance(st, (ast.Assign, ast.AnnAssign)) and st.value is not None
                and (st.targets == [sts[0]] if isinstance(st, ast.Assign) else st.target is sts[0])):
            continue
        v = st.value
        if not ((isinstance(v, ast.List) and not v.elts) or (isinstance(v, ast.Call) and _is_name(v.func, 'list') and not v.args and not v.keywords)):
            continue
        seps, ok, n_app, joins = set(), True, 0, []
        for n in ast.walk(f.node):
            if not (isinstance(n, ast.Name) and n.id == name and isinstance(n.ctx, ast.Load)):
                continue
            up = par.get(id(n))
            up2 = par.get(id(up)) if up is not None else None
            up3 = par.get(id(up2)) if up2 is not None else None
            if isinstance(up, ast.Attribute) and up.attr == 'append' and isinstance(up2, ast.Call) and up2.func is up and len(up2.args) == 1 \
                    and not up2.keywords and isinstance(up3, ast.Expr):
                n_app += 1
            elif isinstance(up, ast.Call) and up.args == [n] and not up.keywords and isinstance(up.func, ast.Attribute) and up.func.attr == 'join' \
                    and isinstance(up.func.value, ast.Constant) and isinstance(up.func.value.value, str):
                seps.add(up.func.value.value)
                joins.append(up)
            elif (isinstance(up, ast.UnaryOp) and isinstance(up.op, ast.Not)) \
                    or (isinstance(up, (ast.If, ast.While, ast.IfExp)) and up.test is n) \
                    or (isinstance(up, ast.Call) and _is_name(up.func, 'len') and up.args == [n] and not up.keywords):
                pass        # an emptiness / length test reads the list without changing it (`if not pieces: return ''`)
            else:
                ok = False
        if ok and n_app and len(joins) == 1:
            out[name] = next(iter(seps))
            out_join[name] = joins[0]
    return out, out_join


def r4_to_query_str(run):
    p = run.project
    f = p.func(TO_QS)
    cfg = cfg_of(f, p)
    run.use_cfg(cfg)
    rd = ReachingDefs(cfg)
    params = f.params()
    if len(params) < 2:
        raise AnchorError('%s: comma_delimited_lists parameter missing' % TO_QS)
    flag = params[1]

    def callee_of(g: Func, fexpr, depth=0):
        """What the callable expression denotes in `g`: a Func / qualified name; a local bound once to a callable
        (`enc = encode_value`) denotes what it was bound to."""
        t = p.resolve_callable(g, fexpr) if isinstance(fexpr, (ast.Name, ast.Attribute)) else None
        if t is None and isinstance(fexpr, ast.Name) and fexpr.id not in g.params() and depth < 3:
            stores = [x for x in ast.walk(g.node) if isinstance(x, ast.Name) and x.id == fexpr.id and isinstance(x.ctx, (ast.Store, ast.Del))]
            binds = [x for x in walk_no_nested(g.node) if isinstance(x, ast.Assign) and len(x.targets) == 1 and _is_name(x.targets[0], fexpr.id)]
            if len(stores) == 1 and len(binds) == 1 and isinstance(binds[0].value, (ast.Name, ast.Attribute)):
                return callee_of(g, binds[0].value, depth + 1)
        return t

    def is_enc_ref(e, g: Func = f) -> bool:
        t = callee_of(g, e)
        return getattr(t, 'qual', t) == ENCODE_VALUE

    def is_enc(e, g: Func = f) -> bool:
        return isinstance(e, ast.Call) and is_enc_ref(e.func, g)

    def encoded_value(e, g: Func = f, depth=0) -> Optional[str]:
        """'enc' | 'bool' | 'join' | None.  A call of a plain module-level helper is what the helper returns: 'enc' when
        every return of it is an encoded form (the helper `_render_scalar(v)`: 'true' / 'false' / encode_value(str(v)))."""
        if is_enc(e, g):
            return 'enc'
        if isinstance(e, ast.Constant) and e.value in ('true', 'false'):
            return 'bool'
        if (isinstance(e, ast.Call) and isinstance(e.func, ast.Attribute) and e.func.attr == 'join' and isinstance(e.func.value, ast.Constant)
                and e.func.value.value == ',' and len(e.args) == 1):
            a = e.args[0]
            if isinstance(a, ast.Call) and _is_name(a.func, 'map') and len(a.args) == 2 and is_enc_ref(a.args[0], g):
                return 'join'
            if isinstance(a, (ast.GeneratorExp, ast.ListComp)) and is_enc(a.elt, g):
                return 'join'
            return 'join-unencoded'
        if isinstance(e, ast.IfExp):
            ks = {encoded_value(e.body, g, depth), encoded_value(e.orelse, g, depth)}
            return None if None in ks or 'join-unencoded' in ks else ('bool' if ks == {'bool'} else 'join' if ks == {'join'} else 'enc')
        if isinstance(e, ast.Call) and depth < 2 and not any(isinstance(a, ast.Starred) for a in e.args):
            h = callee_of(g, e.func)
            if isinstance(h, Func) and h.cls is None and h.parent is None and not h.is_async and not h.decorators \
                    and not any(isinstance(x, (ast.Yield, ast.YieldFrom, ast.Global, ast.Nonlocal)) for x in ast.walk(h.node)):
                rets = [x for x in walk_no_nested(h.node) if isinstance(x, ast.Return)]
                hcfg = cfg_of(h, p)
                falls_off = any(l != 'ret' for (_a, l) in hcfg.pred.get(hcfg.exit, ()))      # an implicit `return None`
                if not rets or falls_off:
                    return None
                ks = set()
                for r in rets:
                    v = r.value
                    if isinstance(v, ast.Name) and v.id not in h.params():
                        binds = [x for x in walk_no_nested(h.node) if isinstance(x, ast.Assign) and len(x.targets) == 1 and _is_name(x.targets[0], v.id)]
                        stores = [x for x in ast.walk(h.node) if isinstance(x, ast.Name) and x.id == v.id and isinstance(x.ctx, (ast.Store, ast.Del))]
                        if not binds or len(binds) != len(stores):
                            return None
                        ks |= {encoded_value(b_.value, h, depth + 1) for b_ in binds}
                    else:
                        ks.add(encoded_value(v, h, depth + 1) if v is not None else None)
                if None in ks or 'join-unencoded' in ks:
                    return None
                run.use(h)
                return 'bool' if ks == {'bool'} else 'join' if ks == {'join'} else 'enc'
        return None

    # the ordered text accumulation: `query_str += <pair>` on a string, or `pieces.append(<pair>)` on a local list that
    # is joined once (`''.join(pieces)` when every pair carries its own '&', `'&'.join(pieces)` when none does)
    list_sep, list_join = _list_accumulators(f)
    accs, pair_of, sep_of = [], {}, {}
    for n in cfg.live_nodes():
        if n.kind != 'stmt':
            continue
        a = n.ast
        # `acc += <pair>`, or the same written `acc = acc + <pair>` (the accumulator as the left operand of the outermost `+`)
        piece = None
        if isinstance(a, ast.AugAssign) and isinstance(a.op, ast.Add) and isinstance(a.target, ast.Name):
            piece = a.value
        elif isinstance(a, ast.Assign) and len(a.targets) == 1 and isinstance(a.targets[0], ast.Name) and isinstance(a.value, ast.BinOp) \
                and isinstance(a.value.op, ast.Add) and _is_name(a.value.left, a.targets[0].id):
            piece = a.value.right
        if piece is not None:
            if any(isinstance(x, ast.Call) and isinstance(x.func, ast.Attribute) and x.func.attr == 'join' and len(x.args) == 1
                   and isinstance(x.args[0], ast.Name) and x.args[0].id in list_sep for x in walk_self(piece)):
                continue        # the final assembly of a list accumulation, not a pair
            accs.append(n)
            pair_of[n.id], sep_of[n.id] = piece, None
        elif isinstance(a, ast.Expr) and isinstance(a.value, ast.Call) and isinstance(a.value.func, ast.Attribute) and a.value.func.attr == 'append' \
                and isinstance(a.value.func.value, ast.Name) and a.value.func.value.id in list_sep:
            accs.append(n)
            pair_of[n.id], sep_of[n.id] = a.value.args[0], list_sep[a.value.func.value.id]
    if not accs:
        raise AnchorError('%s: no `query_str += ...` accumulation found' % TO_QS)
    for lname, jc in list_join.items():
        # the list is joined when it is complete: no append can follow the join
        apps = [n.id for n in accs if sep_of[n.id] is not None and n.ast.value.func.value.id == lname]
        if apps and flow.find_path(cfg, [node_of(cfg, jc)], apps) is not None:
            raise UnknownIdiom('%s: %s is joined before the last append' % (TO_QS, lname))
    n_pairs = 0
    for n in accs:
        parts = concat_parts(pair_of[n.id])
        if sep_of[n.id] == '&' and len(parts) == 3:
            parts = parts + [ast.Constant(value='&')]       # the '&' comes from the join
        elif sep_of[n.id] not in (None, '') or len(parts) != 4:
            if sep_of[n.id] is not None and len(parts) in (3, 4):
                run.fail('pairs are rendered as key=value and joined with "&"', f, n.ast,
                         witness=['the pieces are joined with %r' % sep_of[n.id], 'a piece is %s' % short(pair_of[n.id], 60)],
                         runtime_witness='to_query_str({"a": 1, "b": 2}) is not "?a=1&b=2"')
                continue
            raise UnknownIdiom('%s: accumulation %s' % (TO_QS, short(n.ast)))
        k, eq, v, amp = parts
        n_pairs += 1
        run.check(isinstance(eq, ast.Constant) and eq.value == '=' and isinstance(amp, ast.Constant) and amp.value == '&',
                  'pairs are rendered as key=value and joined with "&"', f, n.ast)
        # key: encode_value(<loop key>)
        def key_encoded(e, at, depth=0) -> bool:
            if is_enc(e) and e.args and isinstance(e.args[0], ast.Name):
                ds = rd.at(at, e.args[0].id)
                return bool(ds) and all(d.how == 'for-unpack' and d.index == 0 for d in ds)
            if isinstance(e, ast.Name) and depth < 3:
                ds = rd.at(at, e.id)
                return bool(ds) and all(d.value is not None and key_encoded(d.value, node_of(cfg, d.value), depth + 1) for d in ds)
            return False

        kdefs_ok = key_encoded(k, n.id)
        run.check(kdefs_ok, 'the key is percent-encoded with encode_value', f, n.ast, witness=['key expression: %s' % short(k)],
                  runtime_witness='to_query_str({"a&b": 1}) yields a string that parses back to two parameters')
        # value: every reaching definition is an encoded form
        if not isinstance(v, ast.Name):
            kinds = [encoded_value(v)]
            descr = [short(v)]
        else:
            ds = rd.at(n.id, v.id)
            if not ds:
                raise UnknownIdiom('%s: no definition of %s reaches %s' % (TO_QS, v.id, short(n.ast)))
            kinds = [encoded_value(d.value) if d.value is not None else None for d in ds]
            descr = ['%s:%s %s' % (f.file, getattr(d.stmt, 'lineno', '?'), short(d.stmt, 70)) for d in ds]
        run.check(all(kd in ('enc', 'bool', 'join') for kd in kinds),
                  'on every path the value is percent-encoded with encode_value (or is the literal true/false)', f, n.ast,
                  witness=['%s -> %s' % (d, kd or 'RAW') for d, kd in zip(descr, kinds)],
                  runtime_witness='to_query_str({"a": "x&y=z"}) does not parse back to itself')
    if n_pairs < 2:
        raise AnchorError('%s: expected the scalar and the per-item accumulation' % TO_QS)
    # comma join iff flag
    joins = [n for n in cfg.live_nodes() if n.kind == 'stmt' and isinstance(n.ast, ast.Assign) and (encoded_value(n.ast.value) or '').startswith('join')]
    if not joins:
        raise AnchorError('%s: no ",".join(...) of list values' % TO_QS)
    for n in joins:
        run.check(fact_value(cfg, n.id, lambda e: _is_name(e, flag)) is True, 'list values are comma-joined only when comma_delimited_lists is set', f, n.ast)
    item_loops = [n for n in cfg.live_nodes() if n.kind == 'iter' and any(a.id in flow.reachable(cfg, [b for (_x, b, _l) in flow.edges_out(cfg, n.id, 'next')], avoid_nodes=[n.id]) for a in accs)
                  and fact_value(cfg, n.id, lambda e: _is_name(e, flag)) is not None]
    for n in item_loops:
        run.check(fact_value(cfg, n.id, lambda e: _is_name(e, flag)) is False, 'list values are repeated as key=item pairs only when comma_delimited_lists is off', f,
                  'for %s in %s' % (short(n.stmt.target), short(n.stmt.iter)),
                  where='%s:%s' % (f.file, n.lineno))
    if not item_loops:
        raise AnchorError('%s: per-item rendering of list values not found' % TO_QS)


# ---------------------------------------------------------------------------
# R5 both request classes hand the two options to parse_query_string
# ---------------------------------------------------------------------------

def parse_qs_calls(p):
    out = []
    for cq in (WSGI_REQ, ASGI_REQ):
        c = p.cls(cq)
        for f in c.methods.values():
            for n in walk_no_nested(f.node):
                if isinstance(n, ast.Call) and resolves_to(p, f, n, PQS):
                    out.append((f, n))
    return out


def _options_text(p, f: Func, call, e) -> str:
    """Text of an option read, with a local alias of the options object spelled `self.options`: a local / parameter L
    counts as self.options at the call when `self.options = L` is the only kind of store into self.options in the
    function, one such store lies on every path to the call, and exactly the definitions of L that reach the call
    reach that store (L is not re-bound in between)."""
    if not (isinstance(e, ast.Attribute) and isinstance(e.value, ast.Name) and e.value.id != 'self'):
        return short(e)
    local = e.value.id
    cfg = cfg_of(f, p)
    stores = []
    for n in cfg.live_nodes():
        if n.kind != 'stmt' or not isinstance(n.ast, (ast.Assign, ast.AnnAssign)):
            continue
        targets = n.ast.targets if isinstance(n.ast, ast.Assign) else [n.ast.target]
        if any(isinstance(t, ast.Attribute) and t.attr == 'options' and _is_name(t.value, 'self') for t in targets):
            stores.append(n)
    if not stores or not all(n.ast.value is not None and _is_name(n.ast.value, local) for n in stores):
        return short(e)
    rd = ReachingDefs(cfg)
    cn = node_of(cfg, call)
    at_call = {id(d) for d in rd.at(cn, local)}
    good = [n.id for n in stores if {id(d) for d in rd.at(n.id, local)} == at_call]
    if not good or not flow.dominated_by_nodes(cfg, cn, good):
        return short(e)
    return 'self.options.' + e.attr


def check_parse_qs_options(run, p):
    target = p.func(PQS)
    tparams = target.params()
    calls = parse_qs_calls(p)
    if len(calls) < 2 or {f.cls.qual for f, _c in calls} != {WSGI_REQ, ASGI_REQ}:
        raise AnchorError('expected parse_query_string calls in both request classes, found %d' % len(calls))
    want = {'keep_blank': 'self.options.keep_blank_qs_values', 'csv': 'self.options.auto_parse_qs_csv'}
    for f, c in calls:
        run.use(f)
        given = dict(zip(tparams, c.args))
        given.update({k.arg: k.value for k in c.keywords if k.arg})
        for kw, expr in sorted(want.items()):
            if kw not in tparams:
                raise AnchorError('%s has no parameter %s' % (PQS, kw))
            got = given.get(kw)
            run.check(got is not None and _options_text(p, f, c, got) == expr, '%s passes %s=%s to parse_query_string' % (f.qual, kw, expr), f, c,
                      witness=['%s=%s' % (kw, short(got) if got is not None else '<default False>')],
                      runtime_witness='the request option %s has no (or the wrong) effect on this stack' % expr.rsplit('.', 1)[-1])


def r5_options(run):
    check_parse_qs_options(run, run.project)


def r9_asgi_query_codec(run):
    """ASGI hands the query string over as bytes; names and values are to be
    read as UTF-8 (the property's reference reading, and what the WSGI side
    yields for the same request).  Decided: the bytes->str step applied to
    scope['query_string'] in asgi.Request.__init__ uses UTF-8 (the default
    codec), whatever its error policy."""
    p = run.project
    f = p.func('falcon.asgi.request.Request.__init__')
    run.use(f)
    calls = []
    for c in walk_no_nested(f.node):
        if isinstance(c, ast.Call) and isinstance(c.func, ast.Attribute) and c.func.attr == 'decode':
            v = c.func.value
            if isinstance(v, ast.Subscript) and isinstance(v.slice, ast.Constant) and v.slice.value == 'query_string':
                calls.append(c)
    if not calls:
        # bound to a local first?
        for a in walk_no_nested(f.node):
            if isinstance(a, ast.Assign) and isinstance(a.value, ast.Subscript) and isinstance(a.value.slice, ast.Constant) \
                    and a.value.slice.value == 'query_string' and len(a.targets) == 1 and isinstance(a.targets[0], ast.Name):
                nm = a.targets[0].id
                calls += [c for c in walk_no_nested(f.node) if isinstance(c, ast.Call) and isinstance(c.func, ast.Attribute)
                          and c.func.attr == 'decode' and isinstance(c.func.value, ast.Name) and c.func.value.id == nm]
    if not calls:
        raise AnchorError('asgi.Request.__init__: decode of scope[\'query_string\'] not found')
    for c in calls:
        codec = None
        if c.args:
            codec = c.args[0].value if isinstance(c.args[0], ast.Constant) else '?'
        for k in c.keywords:
            if k.arg == 'encoding':
                codec = k.value.value if isinstance(k.value, ast.Constant) else '?'
        ok = codec is None or (isinstance(codec, str) and codec.lower().replace('_', '-') in ('utf-8', 'utf8'))
        run.check(ok, 'the raw ASGI query string is decoded as UTF-8', f, c,
                  runtime_witness="GET /?q=caf\\xc3\\xa9 : ASGI req.params == {'q': 'cafÃ©'} while WSGI gives 'café'")


def r10_json_length_in_bytes(run):
    """get_param_as_json hands the handler a byte stream built from the
    parameter's text together with its length.  The handler contract counts
    content_length in BYTES: the length argument must be len() of the very
    bytes object the stream wraps (or None = unknown), never the character
    count of the text (F17: a handler honouring the argument truncated
    non-ASCII values)."""
    p = run.project
    f = p.func(WSGI_REQ + '.get_param_as_json')
    run.use(f)
    binds = {}
    for a in walk_no_nested(f.node):
        if isinstance(a, ast.Assign) and len(a.targets) == 1 and isinstance(a.targets[0], ast.Name):
            binds.setdefault(a.targets[0].id, []).append(a.value)

    def is_encode(e):
        return isinstance(e, ast.Call) and isinstance(e.func, ast.Attribute) and e.func.attr == 'encode'

    def bytes_src(e):
        """normalised text of the bytes expression a stream argument wraps"""
        if isinstance(e, ast.Name) and len(binds.get(e.id, [])) == 1 and is_encode(binds[e.id][0]):
            return 'name:' + e.id
        if is_encode(e):
            return 'expr:' + short(e)
        return None

    calls = [c for c in walk_no_nested(f.node) if isinstance(c, ast.Call) and isinstance(c.func, ast.Attribute) and c.func.attr == 'deserialize']
    if not calls:
        raise AnchorError('get_param_as_json: no handler.deserialize(...) call')
    for c in calls:
        args = list(c.args) + [k.value for k in c.keywords]
        if len(args) != 3:
            raise UnknownIdiom('get_param_as_json: deserialize called with %d arguments' % len(args))
        stream, _ct, length = c.args[0] if c.args else None, None, None
        named = {k.arg: k.value for k in c.keywords}
        stream = c.args[0] if len(c.args) > 0 else named.get('stream')
        length = c.args[2] if len(c.args) > 2 else named.get('content_length')
        if stream is None or length is None:
            raise UnknownIdiom('get_param_as_json: cannot identify stream/content_length arguments of deserialize')
        if isinstance(stream, ast.Name) and len(binds.get(stream.id, [])) == 1:
            stream = binds[stream.id][0]
        if not (isinstance(stream, ast.Call) and short(stream.func).endswith('BytesIO') and len(stream.args) == 1):
            raise UnknownIdiom('get_param_as_json: stream argument %s is not BytesIO(<bytes>)' % short(stream))
        src = bytes_src(stream.args[0])
        if src is None:
            raise UnknownIdiom('get_param_as_json: BytesIO wraps %s, not an .encode() result' % short(stream.args[0]))
        if isinstance(length, ast.Name) and len(binds.get(length.id, [])) == 1:
            length = binds[length.id][0]
        ok = False
        if isinstance(length, ast.Constant) and length.value is None:
            ok = True
        elif isinstance(length, ast.Call) and isinstance(length.func, ast.Name) and length.func.id == 'len' and len(length.args) == 1:
            ok = bytes_src(length.args[0]) == src
        run.check(ok, 'get_param_as_json passes the byte length of the stream it builds (len of the encoded value, or None) as content_length', f, c,
                  witness=['stream wraps %s' % src.split(':', 1)[1], 'content_length=%s' % short(length)],
                  runtime_witness="?p={\"k\": \"\u00e9\u00e9\"} with a JSON handler that reads content_length bytes: the value is cut mid-character -> 500/400 instead of the parsed object")


# ---------------------------------------------------------------------------
# R11 a typed getter never re-tokenises a stored parameter value
# ---------------------------------------------------------------------------
# Commas separate list elements "only as literal, never percent-encoded": that
# can only be decided BEFORE decoding, i.e. in parse_query_string (R1).  What a
# getter converts are therefore the elements of what the parser stored: a
# split / partition / regex tokeniser applied to a stored value inside a
# getter (or one level of same-class / private same-module helper) also cuts
# at separators that arrived percent-encoded (data).  Decided per getter by a
# def-use closure from the table read (or the delegate getter's result) to
# every tokeniser, and an abstract evaluation of the guards over the default
# values of the getter's own extra parameters: a tokeniser that can only be
# reached under an explicitly passed non-default argument is a different
# (opt-in) reading and outside the property.

_TEMPLATE_PARAMS = ('required', 'store', 'default')   # must never change WHICH value is read: left unconstrained
_TOKENISE_METHODS = ('split', 'rsplit', 'partition', 'rpartition', 'splitlines')
_PATTERN_METHODS = ('split', 'findall', 'finditer')
_TOKENISE_FUNCS = ('re.split', 're.findall', 're.finditer', 'shlex.split', 'csv.reader', 'builtins.str.split', 'builtins.str.rsplit',
                   'builtins.str.partition', 'builtins.str.rpartition', 'builtins.str.splitlines')
# str -> str methods: the result is still "the parameter value"
_STR_PRESERVING = ('strip', 'lstrip', 'rstrip', 'lower', 'upper', 'casefold', 'title', 'capitalize', 'swapcase', 'replace',
                   'expandtabs', 'removeprefix', 'removesuffix', 'translate', 'copy')
_CONTAINER_FUNCS = ('str', 'list', 'tuple', 'iter', 'reversed', 'sorted', 'set', 'frozenset')


class _Values:
    """Stored-parameter-value closure of one function (flow-insensitive)."""

    def __init__(self, p, f: Func, seeds=()):
        self.p, self.f = p, f
        self.names = set(seeds)
        self.n_sources = 0
        changed = True
        while changed:
            changed = False
            for n in walk_no_nested(f.node):
                tgts, val = [], None
                if isinstance(n, ast.Assign):
                    tgts, val = list(n.targets), n.value
                elif isinstance(n, ast.AnnAssign) and n.value is not None:
                    tgts, val = [n.target], n.value
                elif isinstance(n, ast.AugAssign):
                    tgts, val = [n.target], n.value
                elif isinstance(n, ast.NamedExpr):
                    tgts, val = [n.target], n.value
                elif isinstance(n, (ast.For, ast.AsyncFor, ast.comprehension)):
                    tgts, val = [n.target], n.iter
                if val is None or not self.carries(val):
                    continue
                for t in tgts:
                    for x in ast.walk(t):
                        if isinstance(x, ast.Name) and isinstance(x.ctx, ast.Store) and x.id not in self.names:
                            self.names.add(x.id)
                            changed = True
        self.n_sources = sum(1 for n in walk_no_nested(f.node) if self.is_source(n))

    def is_source(self, e) -> bool:
        f = self.f
        if isinstance(e, ast.Subscript) and isinstance(e.ctx, ast.Load) and (table_of(f, e.value) or ('', ''))[0] == 'params':
            return True
        if isinstance(e, ast.Call) and isinstance(e.func, ast.Attribute):
            if e.func.attr in ('get', 'pop') and (table_of(f, e.func.value) or ('', ''))[0] == 'params':
                return True
            recv = e.func.value
            is_super = isinstance(recv, ast.Call) and isinstance(recv.func, ast.Name) and recv.func.id == 'super'
            if ((isinstance(recv, ast.Name) and recv.id == 'self') or is_super) and e.func.attr.startswith('get_param'):
                return True
        return False

    def helper(self, call: ast.Call):
        """same-class method / private same-module function a value is handed to"""
        t = self.p.callee(self.f, call)
        if not isinstance(t, Func) or t.name.startswith('get_param'):
            return None
        if t.cls is not None and self.f.cls is not None and t.cls.qual in self.p.mro(self.f.cls.qual):
            return t
        if t.cls is None and t.module is self.f.module and t.name.startswith('_'):
            return t
        return None

    def tokeniser(self, e) -> bool:
        if not isinstance(e, ast.Call):
            return False
        args = list(e.args) + [k.value for k in e.keywords]
        if isinstance(e.func, ast.Attribute):
            if e.func.attr in _TOKENISE_METHODS and self.carries(e.func.value):
                return True
            if e.func.attr in _PATTERN_METHODS and any(self.carries(a) for a in args):
                return True
        t = self.p.resolve_callable(self.f, e.func) if isinstance(e.func, (ast.Name, ast.Attribute)) else None
        return isinstance(t, str) and t in _TOKENISE_FUNCS and any(self.carries(a) for a in args)

    def carries(self, e) -> bool:
        if e is None:
            return False
        if self.is_source(e):
            return True
        if isinstance(e, ast.Name):
            return e.id in self.names
        if isinstance(e, (ast.Subscript, ast.Starred, ast.Await)):
            return self.carries(e.value)
        if isinstance(e, (ast.List, ast.Tuple, ast.Set)):
            return any(self.carries(x) for x in e.elts)
        if isinstance(e, ast.IfExp):
            return self.carries(e.body) or self.carries(e.orelse)
        if isinstance(e, ast.BoolOp):
            return any(self.carries(x) for x in e.values)
        if isinstance(e, ast.BinOp) and isinstance(e.op, ast.Add):
            return self.carries(e.left) or self.carries(e.right)
        if isinstance(e, ast.JoinedStr):
            return any(isinstance(x, ast.FormattedValue) and self.carries(x.value) for x in e.values)
        if isinstance(e, (ast.ListComp, ast.GeneratorExp, ast.SetComp)):
            return self.carries(e.elt)
        if isinstance(e, ast.NamedExpr):
            return self.carries(e.value)
        if isinstance(e, ast.Call):
            args = list(e.args) + [k.value for k in e.keywords]
            if self.tokeniser(e):
                return True   # the pieces are pieces of the value
            if isinstance(e.func, ast.Attribute):
                if e.func.attr in _STR_PRESERVING and self.carries(e.func.value):
                    return True
                if e.func.attr == 'join' and any(self.carries(a) for a in args):
                    return True
            if isinstance(e.func, ast.Name) and e.func.id in _CONTAINER_FUNCS and e.func.id not in self.f.params() \
                    and any(self.carries(a) for a in args):
                return True
            if any(self.carries(a) for a in args) and self.helper(e) is not None:
                return True
        return False


_TYPE_NAMES = {'str': str, 'int': int, 'float': float, 'bool': bool, 'bytes': bytes, 'list': list, 'tuple': tuple, 'dict': dict}
_BUILTIN_NAMES = frozenset(dir(__import__('builtins')))


def _ev(e, env):
    """three-valued evaluation of a guard over known constant values (UNK = not known)"""
    if isinstance(e, ast.Constant):
        return e.value
    if isinstance(e, ast.Name):
        return env[e.id] if e.id in env else UNK
    if isinstance(e, (ast.Tuple, ast.List, ast.Set)):
        vals = [_ev(x, env) for x in e.elts]
        return UNK if any(v is UNK for v in vals) else tuple(vals)
    if isinstance(e, ast.UnaryOp) and isinstance(e.op, ast.Not):
        v = _ev(e.operand, env)
        return UNK if v is UNK else (not v)
    if isinstance(e, ast.BoolOp):
        vals = [_ev(v, env) for v in e.values]
        if isinstance(e.op, ast.And):
            if any(v is not UNK and not v for v in vals):
                return False
        elif any(v is not UNK and v for v in vals):
            return True
        return UNK if any(v is UNK for v in vals) else vals[-1]
    if isinstance(e, ast.IfExp):
        t = _ev(e.test, env)
        return UNK if t is UNK else _ev(e.body if t else e.orelse, env)
    if isinstance(e, ast.Compare) and len(e.ops) == 1:
        a, b = _ev(e.left, env), _ev(e.comparators[0], env)
        if a is UNK or b is UNK:
            return UNK
        op = e.ops[0]
        try:
            if isinstance(op, ast.Is):
                return a is b
            if isinstance(op, ast.IsNot):
                return a is not b
            if isinstance(op, ast.Eq):
                return a == b
            if isinstance(op, ast.NotEq):
                return a != b
            if isinstance(op, ast.In):
                return a in b
            if isinstance(op, ast.NotIn):
                return a not in b
            if isinstance(op, ast.Lt):
                return a < b
            if isinstance(op, ast.LtE):
                return a <= b
            if isinstance(op, ast.Gt):
                return a > b
            if isinstance(op, ast.GtE):
                return a >= b
        except TypeError:
            return UNK
        return UNK
    if isinstance(e, ast.Call) and isinstance(e.func, ast.Name) and not e.keywords and e.func.id not in env:
        args = [_ev(a, env) for a in e.args]
        if e.func.id == 'isinstance' and len(e.args) == 2 and args[0] is not UNK:
            ts = e.args[1].elts if isinstance(e.args[1], ast.Tuple) else [e.args[1]]
            if all(isinstance(t, ast.Name) and t.id in _TYPE_NAMES for t in ts):
                return isinstance(args[0], tuple(_TYPE_NAMES[t.id] for t in ts))
            return UNK
        if e.func.id in ('len', 'bool') and len(args) == 1 and args[0] is not UNK:
            try:
                return len(args[0]) if e.func.id == 'len' else bool(args[0])
            except TypeError:
                return UNK
    return UNK


def _unreadable_atom(test, state) -> Optional[ast.AST]:
    """a boolean atom of `test` that mentions only names with known values and still does not evaluate"""
    todo = [test]
    while todo:
        e = todo.pop()
        if isinstance(e, ast.BoolOp):
            todo.extend(e.values)
        elif isinstance(e, ast.UnaryOp) and isinstance(e.op, ast.Not):
            todo.append(e.operand)
        else:
            names = {x.id for x in walk_self(e) if isinstance(x, ast.Name) and (x.id in state or x.id not in _BUILTIN_NAMES)}
            if names and names <= set(state):
                ns = sorted(names)
                for combo in itertools.product(*[sorted(state[n], key=repr) for n in ns]):
                    if _ev(e, dict(zip(ns, combo))) is UNK:
                        return e
    return None


def _default_reach(cfg, f: Func) -> Dict[int, Dict[str, frozenset]]:
    """Nodes reachable when every extra parameter of the getter keeps its
    declared constant default (template parameters and parameters without a
    constant default are unconstrained): node id -> possible values."""
    a = f.node.args
    pos = a.posonlyargs + a.args
    pairs = list(zip(pos[len(pos) - len(a.defaults):], a.defaults)) + [(x, d) for x, d in zip(a.kwonlyargs, a.kw_defaults) if d is not None]
    init: Dict[str, frozenset] = {}
    for arg, d in pairs:
        if arg.arg in _TEMPLATE_PARAMS or not isinstance(d, ast.Constant):
            continue
        try:
            hash(d.value)
        except TypeError:
            continue
        init[arg.arg] = frozenset([d.value])
    # state: name -> possible constant values; a name that is absent is unconstrained
    def refine(state, test, truth):
        names = sorted({x.id for x in walk_self(test) if isinstance(x, ast.Name) and x.id in state})
        if not names:
            return state
        keep = []
        for combo in itertools.product(*[sorted(state[n], key=repr) for n in names]):
            r = _ev(test, dict(zip(names, combo)))
            if r is UNK or bool(r) == truth:
                keep.append(combo)
        if not keep:
            return None
        out = dict(state)
        for i, n in enumerate(names):
            out[n] = frozenset(c[i] for c in keep)
        return out

    def transfer(n, state, label):
        if label == 'exc':
            return state
        out = state
        if not (n.kind == 'iter' and label != 'next'):
            for d in node_defs(n):
                out = dict(out)
                out.pop(d.name, None)
                if d.how == 'assign' and isinstance(d.value, ast.Constant):
                    try:
                        hash(d.value.value)
                        out[d.name] = frozenset([d.value.value])
                    except TypeError:
                        pass
                elif d.how == 'assign' and isinstance(d.value, ast.Name) and d.value.id in state:
                    out[d.name] = state[d.value.id]
            for x in n.walk():   # walrus / comprehension targets: unconstrained
                if isinstance(x, ast.NamedExpr) and isinstance(x.target, ast.Name) and x.target.id in out:
                    out = dict(out)
                    out.pop(x.target.id, None)
        if n.kind == 'test' and label in ('T', 'F'):
            return refine(out, n.ast, label == 'T')
        return out

    IN: Dict[int, Dict[str, frozenset]] = {cfg.entry: init}
    work = [cfg.entry]
    while work:
        x = work.pop()
        for (y, l) in cfg.succ[x]:
            out = transfer(cfg.node(x), IN[x], l)
            if out is None:
                continue
            cur = IN.get(y)
            new = out if cur is None else {k: cur[k] | out[k] for k in cur if k in out}
            if new != cur:
                IN[y] = new
                work.append(y)
    return IN


def _retokenise_sites(p, f: Func, vals: '_Values', depth: int, seen):
    """[(func, call, reachable-with-defaults, state text)] for f and the helpers it hands values to."""
    cfg = cfg_of(f, p)
    reach = _default_reach(cfg, f) if depth == 0 else None
    out = []
    for n in walk_no_nested(f.node):
        if not isinstance(n, ast.Call):
            continue
        nid = None

        def live():
            nonlocal nid
            if reach is None:
                return True, ''
            nid = node_of(cfg, n)
            st = reach.get(nid)
            if st is None:
                return False, ''
            for t in cfg.live_nodes():
                if t.kind == 'test' and t.id in reach and nid in flow.reachable(cfg, [t.id]):
                    atom = _unreadable_atom(t.ast, reach[t.id])
                    if atom is not None:
                        raise UnknownIdiom('%s: guard %s over defaulted parameters does not evaluate (decides whether %s runs with the default arguments)'
                                           % (f.qual, short(atom, 60), short(n, 40)))
            return True, ', '.join('%s in {%s}' % (k, ', '.join(sorted(repr(v) for v in vs))) for k, vs in sorted(st.items()))

        if vals.tokeniser(n):
            ok, st = live()
            out.append((f, n, ok, st, []))
            continue
        args = list(n.args) + [k.value for k in n.keywords]
        if any(vals.carries(a) for a in args):
            h = vals.helper(n)
            if h is None:
                continue
            if depth >= 1 or h.qual in seen:
                # values handed on beyond one level of helper: not followed
                raise UnknownIdiom('%s: a stored parameter value is handed through more than one level of helper (%s)' % (f.qual, short(n, 60)))
            hp = h.params()
            bound = hp[1:] if h.cls is not None and hp and hp[0] in ('self', 'cls') else hp
            seeds = set()
            for i, a_ in enumerate(n.args):
                if vals.carries(a_):
                    if isinstance(a_, ast.Starred) or i >= len(bound):
                        raise UnknownIdiom('%s: cannot bind the arguments of %s' % (f.qual, short(n, 60)))
                    seeds.add(bound[i])
            for k in n.keywords:
                if vals.carries(k.value):
                    if k.arg is None or k.arg not in bound:
                        raise UnknownIdiom('%s: cannot bind the arguments of %s' % (f.qual, short(n, 60)))
                    seeds.add(k.arg)
            ok, st = live()
            hv = _Values(p, h, seeds)
            for (hf, hc, _hok, _hst, via) in _retokenise_sites(p, h, hv, depth + 1, seen | {f.qual, h.qual}):
                out.append((hf, hc, ok, st, ['%s  %s' % (f.loc(n), short(n, 80))] + via))
    return out


def r11_no_retokenising(run):
    p = run.project
    funcs = []
    for cq in (WSGI_REQ, ASGI_REQ):
        mem = effective_members(p, cq)
        for n, m in sorted(mem.items()):
            if (n.startswith('get_param_as_') or n == 'get_param') and m.func is not None and m.kind == 'method' and m.func not in funcs:
                funcs.append(m.func)
    if len(funcs) < 9:
        raise AnchorError('expected get_param and at least 8 get_param_as_* getters, found %d' % len(funcs))
    for f in funcs:
        run.use(f)
        vals = _Values(p, f)
        if not vals.n_sources:
            raise UnknownIdiom('%s: neither reads the parameter table nor delegates to another getter' % f.qual)
        sites = _retokenise_sites(p, f, vals, 0, frozenset())
        bad = [s for s in sites if s[2]]
        for (sf, call, _ok, st, via) in bad:
            run.fail('%s: the stored parameter value is tokenised again inside the getter on a path taken with the default arguments '
                     '(separators that arrived percent-encoded are data; only the parser, before decoding, may split)' % f.name,
                     sf, call, where=sf.loc(call),
                     witness=via + ['%s  %s' % (sf.loc(call), short(call, 80))] + (['reachable with ' + st] if st else []),
                     runtime_witness="auto_parse_qs_csv=True, ?x=a%2Cb,c : req.params['x'] == ['a,b', 'c'] but the getter yields ['a', 'b', 'c']")
        for (sf, call, _ok, _st, _via) in [s for s in sites if not s[2]]:
            run.ok('%s: a tokeniser reachable only under an explicitly passed non-default argument (opt-in reading, outside the property)' % f.name,
                   sf.loc(call), call)
        if not bad:
            run.ok('%s: what is converted are the elements the parser stored (no split/partition/regex tokeniser on a stored value '
                   'with default arguments; %d value-carrying locals followed)' % (f.name, len(vals.names)), f.loc(), f.qual)
    run.extra['c08_r11_getters'] = [f.qual for f in funcs]


# ---------------------------------------------------------------------------
# R12 the JSON getter converts with the CONFIGURED JSON handler
# ---------------------------------------------------------------------------
# The reference conversion of get_param_as_json is the JSON media handler the
# application configured in req_options.media_handlers; the stock handler is
# only the fallback of an application that has none.  "The configured JSON
# handler" is what the handler collection's RESOLVER answers for the JSON media
# type: the resolver also finds a handler registered under a parameterised /
# differently spelled key ('application/json; charset=UTF-8') -- a plain mapping
# lookup on the collection (`.get(k)`, `[k]`, `k in handlers`) does not.

_HANDLER_COLLECTION_ATTR = 'media_handlers'     # public attribute of RequestOptions
_RESOLVER_METHODS = ('_resolve',)                # Handlers._resolve(media_type, default, raise_not_found=True)
_MAPPING_METHODS = ('get', 'pop', 'setdefault', '__getitem__', '__contains__', 'keys', 'values', 'items')
_JSON_TYPE_CONST = 'falcon.constants.MEDIA_JSON'


def r12_json_handler_resolved(run):
    """get_param_as_json converts with the handler the collection's resolver gives for the JSON media type
    (`media_handlers._resolve(MEDIA_JSON, MEDIA_JSON, raise_not_found=False)`), the module's default JSON handler
    only where the resolver answered nothing.  A mapping lookup on the collection is not the resolver.
    W: media_handlers = Handlers({'application/json; charset=UTF-8': DecimalJSONHandler()}); ?p=1.50 ->
    get_param_as_json('p') == 1.5 (float, stock json.loads) while req.media still uses the custom handler."""
    p = run.project
    f = p.func(WSGI_REQ + '.get_param_as_json')
    cfg = cfg_of(f, p)
    run.use_cfg(cfg)
    rd = ReachingDefs(cfg)
    asg = {}
    for a in walk_no_nested(f.node):
        if isinstance(a, ast.Assign) and len(a.targets) == 1 and isinstance(a.targets[0], ast.Name):
            asg.setdefault(a.targets[0].id, []).append(a.value)
    cm = p.module('falcon.constants')
    json_type = p.fold(cm, cm.consts['MEDIA_JSON']) if 'MEDIA_JSON' in cm.consts else UNK
    if not isinstance(json_type, str):
        raise AnchorError('%s is not a constant string' % _JSON_TYPE_CONST)

    def is_collection(e, depth=0) -> bool:
        if isinstance(e, ast.Attribute) and e.attr == _HANDLER_COLLECTION_ATTR:
            return True
        if isinstance(e, ast.Attribute) and e.attr == 'data':
            return is_collection(e.value, depth)
        if isinstance(e, ast.Name) and depth < 3 and e.id not in f.params():
            vals = asg.get(e.id, [])
            return bool(vals) and all(is_collection(v, depth + 1) for v in vals)
        return False

    def mapping_lookup(e) -> bool:
        if isinstance(e, ast.Subscript) and is_collection(e.value):
            return True
        if isinstance(e, ast.Call) and isinstance(e.func, ast.Attribute) and e.func.attr in _MAPPING_METHODS and is_collection(e.func.value):
            return True
        return (isinstance(e, ast.Compare) and len(e.ops) == 1 and isinstance(e.ops[0], (ast.In, ast.NotIn))
                and is_collection(e.comparators[0]))

    def resolver_call(e) -> bool:
        return (isinstance(e, ast.Call) and isinstance(e.func, ast.Attribute) and e.func.attr in _RESOLVER_METHODS
                and is_collection(e.func.value))

    def is_default_handler(e) -> bool:
        """a module-level handler object of the package (or a fresh handler instance): no request / option involved"""
        if isinstance(e, (ast.Name, ast.Attribute)):
            q = p.resolve_expr(f.module, e, f)
            if q:
                head, _, tail = q.rpartition('.')
                m = p.modules.get(head)
                return m is not None and tail in m.consts
        if isinstance(e, ast.Call) and not e.args and not e.keywords:
            t = p.resolve_callable(f, e.func)
            return getattr(t, 'qual', '') in p.classes
        return False

    resolver_sites: list = []
    lookups: list = []

    def classify(e, nid, depth=0) -> str:
        """'resolver' | 'fallback' | 'resolver-or-fallback' | 'mapping' ; UnknownIdiom otherwise"""
        if depth > 4:
            raise UnknownIdiom('get_param_as_json: handler expression too deep')
        if isinstance(e, ast.Subscript) and resolver_call(e.value) and isinstance(e.slice, ast.Constant) and e.slice.value == 0:
            resolver_sites.append(e.value)
            return 'resolver'
        if isinstance(e, ast.Subscript) and isinstance(e.value, ast.Name) and isinstance(e.slice, ast.Constant) and e.slice.value == 0:
            ds = rd.at(nid, e.value.id)     # `resolved = <collection>._resolve(...)` ... `resolved[0]`
            if ds and all(d.how == 'assign' and d.value is not None and resolver_call(d.value) for d in ds):
                resolver_sites.extend(d.value for d in ds)
                return 'resolver'
        if mapping_lookup(e):
            lookups.append(e)
            return 'mapping'
        if is_default_handler(e):
            return 'fallback'
        if isinstance(e, ast.BoolOp) and isinstance(e.op, ast.Or):
            kinds = [classify(v, nid, depth + 1) for v in e.values]
            if 'mapping' in kinds:
                return 'mapping'
            if all(k == 'resolver' for k in kinds[:-1]) and kinds[-1] in ('fallback', 'resolver'):
                return 'resolver-or-fallback'
            raise UnknownIdiom('get_param_as_json: handler chosen by %s' % short(e, 80))
        if isinstance(e, ast.IfExp):
            kinds = {classify(e.body, nid, depth + 1), classify(e.orelse, nid, depth + 1)}
            if 'mapping' in kinds or any(mapping_lookup(x) for x in walk_self(e.test)):
                lookups.extend(x for x in walk_self(e.test) if mapping_lookup(x))
                return 'mapping'
            return 'resolver-or-fallback' if kinds & {'resolver', 'resolver-or-fallback'} else 'fallback'
        if isinstance(e, ast.Name):
            return of_name(e.id, nid, depth + 1)
        raise UnknownIdiom('get_param_as_json: cannot tell where the handler %s comes from' % short(e, 80))

    def of_name(name, nid, depth) -> str:
        defs = rd.at(nid, name)
        if not defs:
            raise UnknownIdiom('get_param_as_json: no definition of %s reaches its use' % name)
        kinds = set()
        for d in defs:
            dn = node_of(cfg, d.stmt) if isinstance(d.stmt, ast.stmt) else nid
            if d.how == 'unpack':
                if resolver_call(d.src) and d.index == 0:
                    resolver_sites.append(d.src)
                    kinds.add('resolver')
                    continue
                raise UnknownIdiom('get_param_as_json: %s is unpacked from %s' % (name, short(d.src, 80)))
            if d.how != 'assign' or d.value is None:
                raise UnknownIdiom('get_param_as_json: %s is bound by %s' % (name, short(d.stmt, 80)))
            k = classify(d.value, dn, depth)
            if k == 'fallback':
                # the fallback may only replace a resolver answer of "nothing": behind `<name> is None` / `not <name>`
                known_none = None
                for test, truth in branch_facts(cfg, dn):
                    r = _none_fact(test, truth, name)
                    if r is not None:
                        known_none = (r is False)
                    elif implied(test, truth, lambda x: _is_name(x, name)) is False:
                        known_none = True
                    if any(mapping_lookup(x) for x in walk_self(test)):
                        lookups.extend(x for x in walk_self(test) if mapping_lookup(x))
                        k = 'mapping'
                if k == 'fallback' and known_none is not True:
                    k = 'unguarded-fallback'
            kinds.add(k)
        if 'mapping' in kinds:
            return 'mapping'
        if 'unguarded-fallback' in kinds:
            return 'unguarded-fallback'
        if kinds & {'resolver', 'resolver-or-fallback'}:
            return 'resolver-or-fallback' if 'fallback' in kinds or 'resolver-or-fallback' in kinds else 'resolver'
        return 'fallback-only'

    calls = [c for c in walk_no_nested(f.node) if isinstance(c, ast.Call) and isinstance(c.func, ast.Attribute) and c.func.attr == 'deserialize']
    if not calls:
        raise AnchorError('get_param_as_json: no handler.deserialize(...) call')
    for c in calls:
        nid = node_of(cfg, c)
        kind = classify(c.func.value, nid)
        if kind in ('resolver', 'resolver-or-fallback'):
            run.ok('get_param_as_json converts with the handler the collection\'s resolver gives for the JSON media type '
                   '(the stock handler only where the resolver answered nothing)', f.loc(c), c.func.value)
        elif kind == 'mapping':
            seen = set()
            for lk in lookups:
                if short(lk) in seen:
                    continue
                seen.add(short(lk))
                run.fail('get_param_as_json looks its handler up in the handler collection as in a plain mapping instead of asking the resolver: '
                         'a JSON handler registered under a parameterised / differently spelled key is not found and the stock json.loads silently takes over',
                         f, lk, where=f.loc(lk), witness=['converted by %s' % short(c, 90)],
                         runtime_witness="media_handlers = Handlers({'application/json; charset=UTF-8': DecimalJSONHandler()}); ?p=1.50 -> "
                                         "get_param_as_json('p') == 1.5 (float) instead of Decimal('1.50'); req.media still uses the custom handler")
        else:
            run.fail('get_param_as_json converts with the stock JSON handler although the application may have configured its own '
                     '(the default handler is used without the resolver having answered "nothing")', f, c.func.value, where=f.loc(c),
                     witness=['handler provenance: %s' % kind],
                     runtime_witness='media_handlers[MEDIA_JSON] = DecimalJSONHandler(); ?p=1.50 -> get_param_as_json(\'p\') is a float')
    # what the resolver is asked for
    seen_sites = []
    for rc in resolver_sites:
        if any(rc is x for x in seen_sites):
            continue
        seen_sites.append(rc)
        names = ('media_type', 'default', 'raise_not_found')
        given = dict(zip(names, rc.args))
        given.update({k.arg: k.value for k in rc.keywords if k.arg})
        mt = p.fold(f.module, given['media_type'], None, f) if 'media_type' in given else UNK
        df = p.fold(f.module, given['default'], None, f) if 'default' in given else UNK
        if mt is UNK or ('default' in given and df is UNK):
            raise UnknownIdiom('get_param_as_json: the media type handed to the resolver is not a constant: %s' % short(rc, 90))
        eff = df if (mt in ('*/*', '', None)) else mt
        run.check(eff == json_type, 'the resolver is asked for the JSON media type (%r)' % json_type, f, rc,
                  witness=['media_type=%r default=%r' % (mt, df)],
                  runtime_witness='get_param_as_json decodes with the handler of another media type')
        rnf = given.get('raise_not_found')
        rv = p.fold(f.module, rnf, None, f) if rnf is not None else True
        if rv is UNK:
            raise UnknownIdiom('get_param_as_json: raise_not_found=%s is not a constant' % short(rnf))
        run.check(rv is False, 'a missing JSON handler is tolerated by the resolver call (raise_not_found=False): the stock handler is the fallback', f, rc,
                  witness=['raise_not_found=%r' % (rv,)],
                  runtime_witness='an app that removed its JSON media handler gets 415 Unsupported Media Type from get_param_as_json instead of the parsed value')


# ---------------------------------------------------------------------------
# R13 the parameter mapping belongs to ONE request (shared with C06 R8)
# ---------------------------------------------------------------------------

_PARAM_STATE = ('_params', 'query_string')     # the constructor attributes the parameter mapping is made of


class _OnlyAbout:
    """A view of the Run that lets through only the obligations that speak about the given attributes (a shared
    rule may examine more than this property is about)."""

    def __init__(self, run, words):
        self._run, self._words = run, words

    def __getattr__(self, name):
        return getattr(self._run, name)

    def _relevant(self, what, construct) -> bool:
        text = '%s %s' % (what, construct if isinstance(construct, str) else (ast.unparse(construct) if isinstance(construct, ast.AST) else ''))
        return any(('self.%s ' % w) in text or ('.%s ' % w) in text or (' %s ' % w) in text or ('%s =' % w) in text for w in self._words)

    def check(self, cond, what, func, construct, **kw):
        if cond or self._relevant(what, construct):
            return self._run.check(cond, what, func, construct, **kw)

    def fail(self, what, func, construct, **kw):
        if self._relevant(what, construct):
            return self._run.fail(what, func, construct, **kw)


def r13_params_per_request(run):
    """"The request's parameter mapping equals the reading of ITS OWN query string": `_params` (and `query_string`) are
    bound on every constructor path of both request classes, or fall back to an IMMUTABLE class-level default.  A mutable
    class default is one dict shared by every request that skips the assignment (C06 R8 decides it for every constructor
    attribute; only the obligations about the parameter state count here).
    W: ASGI `_params = {}` at class level, no query string: req.params.setdefault('limit', '10') in one request is
    seen by has_param / get_param_as_int(default=...) of every later request without a query string."""
    from . import c06 as _c06
    _c06.r8_ctor_definite_assignment(_OnlyAbout(run, _PARAM_STATE))

# ---------------------------------------------------------------------------
# R15 the "nothing to decode" shortcut
# ---------------------------------------------------------------------------

# application/x-www-form-urlencoded: the two characters decode() rewrites (documented: percent-decoding, and '+' -> space
# while unquote_plus is left at its default).  Cross-checked against decode() on every run: each must be a character
# constant decode() works with, and '+' counts only while the default of unquote_plus is true.
DECODER_REWRITES = ('%', '+')


def _decoder_sensitive_chars(p) -> list:
    dec = p.func(DECODE)
    consts = set()
    for n in walk_no_nested(dec.node):
        if isinstance(n, ast.Constant) and isinstance(n.value, (str, bytes)) and len(n.value) == 1:
            consts.add(n.value if isinstance(n.value, str) else n.value.decode('latin1'))
    out = []
    for c in DECODER_REWRITES:
        if c not in consts:
            raise UnknownIdiom('%s: no character constant %r (how does it decode %r?)' % (DECODE, c, c))
        out.append(c)
    a = dec.node.args
    names = [x.arg for x in a.posonlyargs + a.args]
    if 'unquote_plus' not in names:
        raise AnchorError('%s: no unquote_plus parameter' % DECODE)
    k = names.index('unquote_plus') - (len(names) - len(a.defaults))
    if k < 0:
        raise UnknownIdiom('%s: unquote_plus has no default' % DECODE)
    d = p.fold(dec.module, a.defaults[k], None, None)
    if not isinstance(d, bool):
        raise UnknownIdiom('%s: default of unquote_plus is %s' % (DECODE, short(a.defaults[k], 40)))
    if not d:
        out.remove('+')
    return out


def _eval3(e, cell, supers, flags, depth=0):
    """Three-valued truth of a guard, knowing only that the value under consideration contains exactly the characters
    `cell` of the decoder-sensitive set: `'c' in X` for a superstring X of the value is True when c is in the cell and
    unknown otherwise (X may contain c elsewhere); fast-path flags are read through their definition."""
    if isinstance(e, ast.Constant):
        return bool(e.value)
    if isinstance(e, ast.UnaryOp) and isinstance(e.op, ast.Not):
        v = _eval3(e.operand, cell, supers, flags, depth)
        return None if v is None else (not v)
    if isinstance(e, ast.BoolOp):
        vals = [_eval3(v, cell, supers, flags, depth) for v in e.values]
        if isinstance(e.op, ast.And):
            return False if any(v is False for v in vals) else True if all(v is True for v in vals) else None
        return True if any(v is True for v in vals) else False if all(v is False for v in vals) else None
    if isinstance(e, ast.Compare) and len(e.ops) == 1 and isinstance(e.ops[0], (ast.In, ast.NotIn)) \
            and isinstance(e.left, ast.Constant) and isinstance(e.left.value, str) and len(e.left.value) == 1 \
            and isinstance(e.comparators[0], ast.Name) and e.comparators[0].id in supers:
        if e.left.value in cell:
            return isinstance(e.ops[0], ast.In)
        return None
    if isinstance(e, ast.Name) and e.id in flags:
        if isinstance(flags[e.id], dict):
            return flags[e.id].get(cell)     # a flag handed to a helper: its truth per cell, evaluated at the call
        if depth > 4:
            raise UnknownIdiom('%s: fast-path flag %s is defined through too many steps' % (PQS, e.id))
        return _eval3(flags[e.id], cell, supers, flags, depth + 1)
    if isinstance(e, ast.NamedExpr):
        return _eval3(e.value, cell, supers, flags, depth)
    return None


def _guard_proves_clean(test, want: bool, supers, flags, dirty) -> bool:
    """The outcome `want` of `test` is impossible for a value in any of the dirty cells: past it the value holds nothing
    decode() would rewrite."""
    return all(_eval3(test, cell, supers, flags) is (not want) for cell in dirty)


def _helper_use_harmless(p, fn: Func, call: ast.Call, use: ast.Name, depth: int, cellctx=None) -> bool:
    """The raw value is an argument of a call of a plain module-level helper: look through it.  True when, inside the
    helper, the parameter standing for the value is only decoded, tested for blankness / a character, or comma-split
    (R1 walks the helper for what becomes of the pieces), and re-bound only to its own decoded form.  Any other use
    of it there (`return text`, a store) is reachable only past a guard that proves the value clean: the guards of the
    helper are evaluated on the same cells, a flag parameter (`_maybe_decode(text, is_encoded)`) having, per cell, the
    truth of the argument at the call (`cellctx` = the caller's (flags, superstrings, dirty cells))."""
    g = p.callee(fn, call)
    if not isinstance(g, Func) or depth > 2 or g.is_async or g.decorators or g.cls is not None:
        return False
    a = g.node.args
    if a.vararg or a.kwarg or any(isinstance(x, ast.Starred) for x in call.args):
        return False
    params = g.params()
    pname = None
    for i, x in enumerate(call.args):
        if x is use and i < len(params):
            pname = params[i]
    for k in call.keywords:
        if k.value is use and k.arg in params:
            pname = k.arg
    if pname is None:
        return False
    gcfg = cfg_of(g, p)
    grd = ReachingDefs(gcfg)
    gpar = _parent_map(g.node)

    def is_dec(e) -> bool:
        return isinstance(e, ast.Call) and resolves_to(p, g, e, DECODE)

    barriers = set()
    for n in gcfg.live_nodes():
        for d in node_defs(n):
            if d.name == pname and not (d.value is not None and is_dec(d.value) and d.value.args and _is_name(d.value.args[0], pname)):
                return False
            if d.name == pname:
                barriers.add(n.id)
    # the helper's own guards: per-cell truth of its flag parameters, taken from the arguments of this call
    gflags, gctx, clean_edges = {}, None, set()
    if cellctx is not None:
        cflags, csupers, dirty = cellctx
        bound = dict(zip(params, call.args))
        bound.update({k.arg: k.value for k in call.keywords if k.arg in params})
        stored = {x.id for x in ast.walk(g.node) if isinstance(x, ast.Name) and isinstance(x.ctx, (ast.Store, ast.Del))}
        for pn, arg in bound.items():
            if pn == pname or pn in stored:
                continue
            tbl = {cell: _eval3(arg, cell, csupers, cflags) for cell in dirty}
            if any(x is not None for x in tbl.values()):
                gflags[pn] = tbl
        gctx = (gflags, {pname}, dirty)
        for n in gcfg.live_nodes():
            if n.kind != 'test' or n.ast is None:
                continue
            for (y, l) in gcfg.succ[n.id]:
                if l in ('T', 'F') and _guard_proves_clean(n.ast, l == 'T', {pname}, gflags, dirty):
                    clean_edges.add((n.id, y, l))

    def behind_clean_guard(u, unid) -> bool:
        if gctx is None:
            return False
        # an arm of a conditional expression whose test proves the value clean
        cur, up_ = u, gpar.get(id(u))
        while up_ is not None and not isinstance(up_, ast.stmt):
            if isinstance(up_, ast.IfExp) and cur is not up_.test and _guard_proves_clean(up_.test, cur is up_.body, {pname}, gflags, gctx[2]):
                return True
            cur, up_ = up_, gpar.get(id(up_))
        starts = [y for (y, l) in gcfg.succ[gcfg.entry] if l != 'exc']
        return unid not in starts and flow.find_path(gcfg, starts, [unid], avoid_nodes=barriers - {unid}, avoid_edges=clean_edges,
                                                     edge_filter=flow.no_exc) is None
    for u in ast.walk(g.node):
        if not (isinstance(u, ast.Name) and u.id == pname and isinstance(u.ctx, ast.Load)):
            continue
        try:
            unid = _use_node(gcfg, u)
        except AnchorError:
            return False      # used inside a nested definition / dead code: not read
        if not any(d.how == 'param' for d in grd.at(unid, pname)):
            continue
        up = gpar.get(id(u))
        if isinstance(up, ast.Call) and is_dec(up) and u in up.args:
            if up.keywords or len(up.args) != 1:
                return False
            continue
        if isinstance(up, ast.Attribute) and isinstance(gpar.get(id(up)), ast.Call) and gpar.get(id(up)).func is up and up.attr == 'split':
            continue
        if isinstance(up, ast.UnaryOp) and isinstance(up.op, ast.Not):
            continue
        if isinstance(up, ast.Compare) and len(up.ops) == 1 and isinstance(up.ops[0], (ast.In, ast.NotIn)) and up.comparators[0] is u \
                and (isinstance(up.left, ast.Constant) or isinstance(p.fold(g.module, up.left, None, g), str)):
            continue
        if isinstance(up, (ast.If, ast.While, ast.IfExp)) and up.test is u:
            continue
        if isinstance(up, ast.BoolOp) and gcfg.node(unid).kind == 'test':
            continue
        if isinstance(up, ast.keyword):
            up = gpar.get(id(up))
        if isinstance(up, ast.Call) and not is_dec(up) and _helper_use_harmless(p, g, up, u, depth + 1, gctx):
            continue
        if behind_clean_guard(u, unid):
            continue
        return False
    return True


def r15_undecoded_shortcut(run):
    """A name or value may be stored as it stands in the query string only when decode() would return it unchanged,
    i.e. when it contains neither of the characters decode() rewrites ('%' and, with unquote_plus at its default, '+').
    Every use of the raw name / value of a field other than decoding it, testing it for blankness / a comma or
    comma-splitting it (R1) must be unreachable from the partition unless a guard on the way proves the absence of
    BOTH characters: the guards (inline tests or a flag such as `is_encoded`, read through its definition) are
    evaluated in three-valued logic over the cells {has '%'} x {has '+'} of the value; `'c' in X` counts for the whole
    query string, the field and the value itself (absent from a superstring = absent from the value).
    W: ?a=b+c -> {'a': 'b+c'} instead of 'b c' when the flag forgets '+'."""
    p = run.project
    f = p.func(PQS)
    cfg = cfg_of(f, p)
    run.use_cfg(cfg)
    params = f.params()
    if not params:
        raise AnchorError('%s: no query string parameter' % PQS)
    qs = params[0]
    run.use(p.func(DECODE))
    part = None
    for n in walk_no_nested(f.node):
        if (isinstance(n, ast.Assign) and isinstance(n.value, ast.Call) and isinstance(n.value.func, ast.Attribute)
                and n.value.func.attr in ('partition', 'rpartition') and n.value.args
                and _separator_value(p, f, n.value.args[0]) == '='):
            part = n
    if part is None or not (isinstance(part.targets[0], ast.Tuple) and len(part.targets[0].elts) == 3
                            and all(isinstance(x, ast.Name) for x in part.targets[0].elts)):
        raise AnchorError('%s: the name/value partition on "=" was not found' % PQS)
    kname, _sep, vname = [x.id for x in part.targets[0].elts]
    field = part.value.func.value.id if isinstance(part.value.func.value, ast.Name) else None
    part_nid = node_of(cfg, part)
    par = _parent_map(f.node)
    rd = ReachingDefs(cfg)

    # fast-path flags: locals bound once to a boolean combination of character tests
    flags, supers_all, dirty, chars = _shortcut_model(p, f, cfg, qs, kname, vname, field)

    def is_decode(e) -> bool:
        return isinstance(e, ast.Call) and resolves_to(p, f, e, DECODE)

    def harmless(use: ast.Name, supers) -> bool:
        up = par.get(id(use))
        # an arm of a conditional expression whose test proves the value clean (`decode(v) if is_encoded else v`)
        cur, up_ = use, up
        while up_ is not None and not isinstance(up_, ast.stmt):
            if isinstance(up_, ast.IfExp) and cur is not up_.test and _guard_proves_clean(up_.test, cur is up_.body, supers, flags, dirty):
                return True
            cur, up_ = up_, par.get(id(up_))
        if isinstance(up, ast.Call) and is_decode(up) and use in up.args:
            if up.keywords or len(up.args) != 1:
                raise UnknownIdiom('%s: decode() called with options: %s' % (PQS, short(up, 60)))
            return True
        if isinstance(up, ast.Attribute) and isinstance(par.get(id(up)), ast.Call) and par.get(id(up)).func is up and up.attr == 'split':
            return True   # the pieces are R1's business
        if isinstance(up, ast.UnaryOp) and isinstance(up.op, ast.Not):
            return True
        if isinstance(up, ast.Compare) and len(up.ops) == 1 and isinstance(up.ops[0], (ast.In, ast.NotIn)) and up.comparators[0] is use \
                and (isinstance(up.left, ast.Constant) or isinstance(p.fold(f.module, up.left, None, f), str)):
            return True       # `',' in v`, the literal written in place or as a module-level constant
        if isinstance(up, (ast.If, ast.While, ast.IfExp)) and up.test is use:
            return True   # truthiness
        if isinstance(up, ast.BoolOp) and cfg.node(_use_node(cfg, use)).kind == 'test':
            return True   # operand of a branch condition
        if isinstance(up, ast.keyword):
            up = par.get(id(up))
        if isinstance(up, ast.Call) and not is_decode(up) and _helper_use_harmless(p, f, up, use, 0, (flags, supers, dirty)):
            return True   # handed to a module-level helper that itself only decodes / blank-tests / comma-splits it (R1 reads the pieces)
        return False

    def decoded_or_clean(nm, v, supers) -> bool:
        """`v` (what nm is re-bound to) is nm decoded, or nm itself where a guard proves it clean: decode(nm),
        `decode(nm) if is_encoded else nm`, a helper call `_maybe_decode(nm, is_encoded)` read by _helper_use_harmless."""
        if is_decode(v) and v.args and _is_name(v.args[0], nm) and len(v.args) == 1 and not v.keywords:
            return True
        if isinstance(v, ast.IfExp):
            return all(decoded_or_clean(nm, arm, supers) or (_is_name(arm, nm) and _guard_proves_clean(v.test, arm is v.body, supers, flags, dirty))
                       for arm in (v.body, v.orelse))
        if isinstance(v, ast.Call) and not is_decode(v):
            uses = [x for a in list(v.args) + [k.value for k in v.keywords] for x in [a] if _is_name(x, nm)]
            others = [x for x in ast.walk(v) if _is_name(x, nm) and not any(x is u for u in uses)]
            return len(uses) == 1 and not others and _helper_use_harmless(p, f, v, uses[0], 0, (flags, supers, dirty))
        return False

    n_ob = 0
    for nm in (kname, vname):
        supers = supers_all | {nm}
        clean_edges = set()
        for n in cfg.live_nodes():
            if n.kind != 'test' or n.ast is None:
                continue
            for (y, l) in cfg.succ[n.id]:
                if l not in ('T', 'F'):
                    continue
                want = (l == 'T')
                if _guard_proves_clean(n.ast, want, supers, flags, dirty):
                    clean_edges.add((n.id, y, l))
        barriers = set()
        for n in cfg.live_nodes():
            for d in node_defs(n):
                if d.name != nm or n.id == part_nid:
                    continue
                if d.value is not None and d.how == 'assign' and decoded_or_clean(nm, d.value, supers):
                    barriers.add(n.id)
                else:
                    raise UnknownIdiom('%s: %s is rebound by %s' % (PQS, nm, short(d.stmt, 80)))
        seen_nodes = set()
        for use in walk_no_nested(f.node):
            if not (isinstance(use, ast.Name) and use.id == nm and isinstance(use.ctx, ast.Load)):
                continue
            unid = _use_node(cfg, use)
            if not any(d.stmt is part for d in rd.at(unid, nm)):
                continue
            if harmless(use, supers) or (unid, nm) in seen_nodes:
                continue
            seen_nodes.add((unid, nm))
            starts = [y for (y, l) in cfg.succ[part_nid] if flow.no_exc(part_nid, y, l)]
            path = flow.find_path(cfg, starts, [unid], avoid_nodes=(barriers | {part_nid}) - {unid}, avoid_edges=clean_edges, edge_filter=flow.no_exc)
            un = cfg.node(unid)
            n_ob += 1
            run.check(path is None, 'the undecoded %s of a field reaches this use only past a guard that proves it contains none of %s '
                      '(the characters decode() rewrites)' % ('name' if nm == kname else 'value', ' '.join(repr(c) for c in chars)),
                      f, 'raw %s in %s' % (nm, short(un.ast if un.ast is not None else use, 100)), where='%s:%s' % (f.file, un.lineno),
                      witness=(flow.describe_path(cfg, [part_nid] + path)
                               + ['%s = %s' % (k_, short(v_, 100)) for k_, v_ in sorted(flags.items())]) if path else None,
                      runtime_witness="?a=b+c parsed as {'a': 'b+c'} (or ?a=b%20c as 'b%20c') instead of 'b c'")
    if n_ob == 0:
        run.ok('no use of an undecoded name or value outside decode() / blank tests / the comma split: everything is decoded', f.loc(), PQS)
    run.sample({'decoder-sensitive characters': chars, 'fast-path flags': {k_: short(v_, 100) for k_, v_ in flags.items()}})


# ---------------------------------------------------------------------------
# R16 presence is decided by the key, never by the stored value
# ---------------------------------------------------------------------------

class _PKeyError(Exception):
    pass


_PKEY = 'k'
# cell of (presence x class of the stored value) -> the mapping the predicate is evaluated on.  The parser stores a str
# (possibly '' with keep_blank_qs_values) or a non-empty list of str, never None.
_PRESENCE_CELLS = (
    ('absent', {}, False),
    ('absent, other parameters present', {'other': 'v'}, False),
    ('present with a blank value (?k= or ?k)', {_PKEY: ''}, True),
    ('present with a value', {_PKEY: 'v'}, True),
    ("present with the value '0'", {_PKEY: '0'}, True),
    ('present several times, all blank (?k&k)', {_PKEY: ['', '']}, True),
)


def _presence_eval(f: Func, e, env):
    """Evaluates a presence predicate over one cell: the parameter table is
    a concrete dict, the looked-up name the key _PKEY.  Understands membership
    tests, .get(), subscripts (KeyError when absent), bool/len/isinstance,
    not/and/or, is/==, conditional expressions; anything else is UNK."""
    def ev(x):
        return _presence_eval(f, x, env)

    if (table_of(f, e) or ('', ''))[0] == 'params':
        return env['$table']
    if isinstance(e, ast.Constant):
        return e.value
    if isinstance(e, ast.Name):
        return env.get(e.id, UNK)
    if isinstance(e, ast.UnaryOp) and isinstance(e.op, ast.Not):
        v = ev(e.operand)
        return UNK if v is UNK else (not v)
    if isinstance(e, ast.BoolOp):
        last = UNK
        for sub in e.values:
            last = ev(sub)
            if last is UNK:
                return UNK
            if isinstance(e.op, ast.And) and not last:
                return last
            if isinstance(e.op, ast.Or) and last:
                return last
        return last
    if isinstance(e, ast.IfExp):
        t = ev(e.test)
        return UNK if t is UNK else ev(e.body if t else e.orelse)
    if isinstance(e, ast.Compare) and len(e.ops) == 1:
        a, b = ev(e.left), ev(e.comparators[0])
        if a is UNK or b is UNK:
            return UNK
        op = e.ops[0]
        try:
            if isinstance(op, ast.In):
                return a in b
            if isinstance(op, ast.NotIn):
                return a not in b
            if isinstance(op, ast.Is):
                return a is b
            if isinstance(op, ast.IsNot):
                return a is not b
            if isinstance(op, ast.Eq):
                return a == b
            if isinstance(op, ast.NotEq):
                return a != b
            if isinstance(op, (ast.Gt, ast.GtE, ast.Lt, ast.LtE)) and type(a) is int and type(b) is int:
                return {ast.Gt: a > b, ast.GtE: a >= b, ast.Lt: a < b, ast.LtE: a <= b}[type(op)]
        except TypeError:
            return UNK
        return UNK
    if isinstance(e, ast.Subscript) and not isinstance(e.slice, ast.Slice):
        c, i = ev(e.value), ev(e.slice)
        if c is UNK or i is UNK:
            return UNK
        if isinstance(c, dict):
            if i not in c:
                raise _PKeyError()
            return c[i]
        return UNK
    if isinstance(e, ast.Call) and not e.keywords and not any(isinstance(a, ast.Starred) for a in e.args):
        if isinstance(e.func, ast.Attribute):
            recv = ev(e.func.value)
            args = [ev(a) for a in e.args]
            if recv is UNK or any(a is UNK for a in args):
                return UNK
            if isinstance(recv, dict):
                if e.func.attr == 'get' and len(args) in (1, 2):
                    return recv.get(*args)
                if e.func.attr == '__contains__' and len(args) == 1:
                    return args[0] in recv
                if e.func.attr == 'keys' and not args:
                    return list(recv)
            return UNK
        if isinstance(e.func, ast.Name) and e.func.id not in env:
            args = [ev(a) for a in e.args]
            if e.func.id == 'isinstance' and len(e.args) == 2 and args[0] is not UNK:
                ts = e.args[1].elts if isinstance(e.args[1], ast.Tuple) else [e.args[1]]
                if all(isinstance(t, ast.Name) and t.id in _TYPE_NAMES for t in ts):
                    return isinstance(args[0], tuple(_TYPE_NAMES[t.id] for t in ts))
                return UNK
            if any(a is UNK for a in args):
                return UNK
            if e.func.id == 'bool' and len(args) == 1:
                return bool(args[0])
            if e.func.id == 'len' and len(args) == 1 and isinstance(args[0], (str, list, dict, tuple)):
                return len(args[0])
    return UNK


def _presence_run(f: Func, stmts, env):
    """('return', value) | ('fall', None); raises _PKeyError / UnknownIdiom."""
    for s in stmts:
        if isinstance(s, ast.Expr) and isinstance(s.value, ast.Constant):
            continue
        if isinstance(s, ast.Pass):
            continue
        if isinstance(s, ast.Expr):
            if _presence_eval(f, s.value, env) is UNK:     # evaluated for its KeyError
                raise UnknownIdiom('%s: statement %s in a presence predicate' % (f.qual, short(s, 60)))
            continue
        if isinstance(s, ast.Return):
            v = _presence_eval(f, s.value, env) if s.value is not None else None
            if v is UNK:
                raise UnknownIdiom('%s: cannot evaluate `%s` on a cell of presence x stored value' % (f.qual, short(s, 80)))
            return ('return', v)
        if isinstance(s, (ast.Assign, ast.AnnAssign)) and getattr(s, 'value', None) is not None:
            tgts = s.targets if isinstance(s, ast.Assign) else [s.target]
            if not all(isinstance(t, ast.Name) for t in tgts):
                raise UnknownIdiom('%s: statement %s in a presence predicate' % (f.qual, short(s, 60)))
            v = _presence_eval(f, s.value, env)
            for t in tgts:
                env[t.id] = v
            continue
        if isinstance(s, ast.If):
            t = _presence_eval(f, s.test, env)
            if t is UNK:
                raise UnknownIdiom('%s: cannot evaluate the test `%s` on a cell of presence x stored value' % (f.qual, short(s.test, 80)))
            r = _presence_run(f, s.body if t else s.orelse, env)
            if r[0] == 'return':
                return r
            continue
        if isinstance(s, ast.Try) and not s.finalbody:
            try:
                r = _presence_run(f, s.body, env)
                if r[0] == 'fall' and s.orelse:
                    r = _presence_run(f, s.orelse, env)
            except _PKeyError:
                for h in s.handlers:
                    names = [] if h.type is None else [short(x) for x in (h.type.elts if isinstance(h.type, ast.Tuple) else [h.type])]
                    if h.type is None or any(n in ('KeyError', 'LookupError', 'Exception') for n in names):
                        r = _presence_run(f, h.body, env)
                        break
                else:
                    raise
            if r[0] == 'return':
                return r
            continue
        raise UnknownIdiom('%s: statement %s in a presence predicate' % (f.qual, short(s, 60)))
    return ('fall', None)


def r16_presence_by_key(run):
    """"Is the parameter there?" is a question about the KEY: has_param(name)
    is true iff name is a key of the parsed mapping, whatever value is stored
    under it (a blank value kept by keep_blank_qs_values, '0', a list of
    blanks).  has_param is evaluated on the cells of presence x stored-value
    class.  (The getters' own found-decision is R3(d): a value is returned
    only under `name in params`, the default only under its negation.)
    W: has_param = bool(self._params.get(name)): ?flag -> params == {'flag':
    ''}, get_param('flag') == '' but has_param('flag') is False."""
    p = run.project
    done = set()
    for rq in (WSGI_REQ, ASGI_REQ):
        m = effective_members(p, rq).get('has_param')
        if m is None or m.func is None:
            raise AnchorError('%s.has_param not found' % rq)
        f = m.func
        if f.qual in done:
            continue
        done.add(f.qual)
        run.use(f)
        params = f.params()
        if len(params) != 2:
            raise UnknownIdiom('%s: signature %s' % (f.qual, params))
        if not any((table_of(f, x) or ('', ''))[0] == 'params' for x in walk_no_nested(f.node)):
            raise UnknownIdiom('%s does not read the parameter table' % f.qual)
        for label, table, present in _PRESENCE_CELLS:
            env = {params[0]: UNK, params[1]: _PKEY, '$table': dict(table)}
            try:
                kind, val = _presence_run(f, f.node.body, env)
                got = repr(val) if kind == 'return' else 'None (falls off the end)'
                truth = bool(val) if kind == 'return' else False
            except _PKeyError:
                got, truth = 'KeyError', None
            run.check(truth is present, 'has_param(name) is %s when the parameter is %s: presence is key membership in the parsed mapping, never '
                      'the truthiness of the stored value' % (present, label), f, 'has_param [%s] -> %s' % (label, got), where=f.loc(),
                      witness=['mapping %r, name %r: has_param returns %s' % (table, _PKEY, got)] if truth is not present else None,
                      runtime_witness="?flag (keep_blank_qs_values): params == {'flag': ''} and get_param('flag') == '' but has_param('flag') is False")


# ---------------------------------------------------------------------------
# R17 a stored list is never empty (or every [-1] on a stored list is guarded)
# ---------------------------------------------------------------------------
# abstract values: a frozenset of alternatives ('list', n) [a list of at least n elements] / ('scalar',) [no list: a str]
# / ('entry',) [what the mapping holds for a key under the invariant: a str or a list of >= 1] / ('unknown',)
_SCALAR = frozenset([('scalar',)])
_ENTRY = frozenset([('entry',)])
_UNKNOWN = frozenset([('unknown',)])
_LIST_GROW = ('append', 'insert')


def _lst(n, tag=''):
    return frozenset([('list', n, tag)])


def _minlen_walk(p, f: Func, table, args=None, depth=0):
    """Per-path evaluation of `f` over the minimum-length domain (split >= 1; unfiltered comprehension preserves;
    filtered comprehension >= 0; literal = count; insert / append + 1; extend + min of the argument), loops entered once
    under the invariant "a stored list has >= 1 element".  Yields (store statement, abstract value) for every
    `<table>[...] = value`."""
    out = []
    returned = []
    par = _parent_map(f.node)

    def flag_ctx(node):
        """values of f's parameters implied by the innermost enclosing branch test that mentions one"""
        cur = node
        while id(cur) in par:
            up = par[id(cur)]
            if isinstance(up, ast.If):
                truth = True if any(cur is b for b in up.body) else False if any(cur is b for b in up.orelse) else None
                fl = {}
                if truth is not None:
                    for nm in f.params():
                        val = implied(up.test, truth, lambda e, nm=nm: _is_name(e, nm))
                        if val is not None and any(_is_name(x, nm) for x in walk_self(up.test)):
                            fl[nm] = val
                if fl:
                    return ''.join(' [%s=%s]' % kv for kv in sorted(fl.items()))
            cur = up
        return ''

    def ev(e, env):
        if isinstance(e, ast.Name):
            return env.get(e.id, _UNKNOWN)
        if isinstance(e, ast.Constant):
            return _SCALAR if isinstance(e.value, (str, bytes, int, float, bool, type(None))) else _UNKNOWN
        if isinstance(e, ast.JoinedStr):
            return _SCALAR
        if isinstance(e, ast.List):
            return _lst(sum(1 for x in e.elts if not isinstance(x, ast.Starred)))
        if isinstance(e, ast.ListComp):
            if len(e.generators) != 1:
                return _UNKNOWN
            g = e.generators[0]
            src = ev(g.iter, env)
            if g.ifs:
                # `[... for x in xs if x]`: the blank elements dropped -- remembered with the flag setting it happens under
                if len(g.ifs) == 1 and isinstance(g.target, ast.Name) and _is_name(g.ifs[0], g.target.id) and all(a[0] == 'list' for a in src):
                    return _lst(0, 'blank-filtered' + flag_ctx(e))
                return _lst(0)
            if all(a[0] == 'list' for a in src):
                tags = {a[2] for a in src}
                return _lst(min(a[1] for a in src), tags.pop() if len(tags) == 1 else '')
            return _lst(0)
        if isinstance(e, ast.IfExp):
            return ev(e.body, env) | ev(e.orelse, env)
        if isinstance(e, ast.Subscript) and _is_name(e.value, table) and isinstance(e.ctx, ast.Load):
            return _ENTRY
        if isinstance(e, ast.BinOp) and isinstance(e.op, ast.Add):
            l, r = ev(e.left, env), ev(e.right, env)
            if all(a[0] == 'list' for a in l | r):
                return _lst(min(a[1] for a in l) + min(a[1] for a in r))
            if l == _SCALAR and r == _SCALAR:
                return _SCALAR
            return _UNKNOWN
        if isinstance(e, ast.Call):
            if isinstance(e.func, ast.Attribute) and e.func.attr in ('split', 'rsplit') and not isinstance(e.func.value, ast.Constant):
                return _lst(1)       # str.split(sep) has at least one element
            if isinstance(e.func, ast.Attribute) and e.func.attr in ('strip', 'lstrip', 'rstrip', 'lower', 'upper', 'replace', 'decode', 'encode', 'join'):
                return _SCALAR
            if _is_name(e.func, 'list') and len(e.args) == 1:
                a = ev(e.args[0], env)
                return a if all(x[0] == 'list' for x in a) else _lst(0)
            h = p.resolve_callable(f, e.func)
            if isinstance(h, Func):
                if h.qual == DECODE:
                    return _SCALAR
                r = h.node.returns
                if r is not None and p.resolve_expr(h.module, r, h) == 'builtins.str':
                    return _SCALAR
                # a plain module-level helper of the same module: what it returns, read with the same walk
                if h.cls is None and h.parent is None and h.module is f.module and depth < 2 and not h.is_async and not h.decorators \
                        and not (h.node.args.vararg or h.node.args.kwarg) \
                        and not any(isinstance(x, (ast.Yield, ast.YieldFrom, ast.Global, ast.Nonlocal)) for x in ast.walk(h.node)):
                    hp = h.params()
                    given = {hp[i]: ev(a, env) for i, a in enumerate(e.args) if i < len(hp) and not isinstance(a, ast.Starred)}
                    given.update({k.arg: ev(k.value, env) for k in e.keywords if k.arg})
                    _st, rets = _minlen_walk(p, h, None, given, depth + 1)
                    if rets:
                        return frozenset().union(*rets)
            if h in ('builtins.str', 'builtins.len', 'builtins.int'):
                return _SCALAR
            return _UNKNOWN
        return _UNKNOWN

    def bind(t, v, env, stmt):
        if isinstance(t, ast.Name):
            env[t.id] = v
        elif isinstance(t, (ast.Tuple, ast.List)):
            for x in t.elts:
                # `k, _, v = field.partition('=')`: three strings
                bind(x.value if isinstance(x, ast.Starred) else x, _SCALAR if _method_call(stmt.value, 'partition') or _method_call(stmt.value, 'rpartition')
                     else _UNKNOWN, env, stmt)
        elif isinstance(t, ast.Subscript) and _is_name(t.value, table):
            out.append((stmt, v))
        elif isinstance(t, ast.Subscript) and isinstance(t.value, ast.Name) and any(a[0] in ('list', 'entry') for a in env.get(t.value.id, _UNKNOWN)):
            pass        # element replacement: the length stays
        elif isinstance(t, ast.Subscript) and isinstance(t.value, ast.Name) and isinstance(t.slice, ast.Slice):
            raise UnknownIdiom('%s: slice assignment %s' % (f.qual, short(stmt, 60)))

    def grow(recv, env, stmt, by):
        cur = env.get(recv, _UNKNOWN)
        new = set()
        for a in cur:
            if a[0] == 'list':
                new.add(('list', a[1] + by, a[2] if by == 0 else ''))
            else:
                new.add(a)       # a stored entry / unknown only grows: the invariant is kept
        env[recv] = frozenset(new)

    def refine(test, truth, env):
        """a branch taken on the truthiness / positive length of a list local: the list has at least one element there"""
        env = dict(env)
        for nm, alts in list(env.items()):
            if not any(a[0] == 'list' and a[1] == 0 for a in alts):
                continue

            def nonempty(e, nm=nm):
                if _is_name(e, nm):
                    return True
                if isinstance(e, ast.Call) and _is_name(e.func, 'len') and len(e.args) == 1 and _is_name(e.args[0], nm):
                    return True
                if isinstance(e, ast.Compare) and len(e.ops) == 1 and isinstance(e.left, ast.Call) and nonempty(e.left) \
                        and isinstance(e.comparators[0], ast.Constant):
                    op, c = e.ops[0], e.comparators[0].value
                    return (isinstance(op, ast.Gt) and c == 0) or (isinstance(op, ast.GtE) and c == 1) or (isinstance(op, ast.NotEq) and c == 0)
                return False

            for a in [x for x in walk_self(test) if nonempty(x)]:
                if implied(test, truth, lambda e, a=a: e is a) is True:
                    env[nm] = frozenset(('list', max(x[1], 1), x[2]) if x[0] == 'list' else x for x in alts)
                    break
        return env

    def run_block(stmts, env):
        """-> list of environments at the normal end of the block"""
        envs = [env]
        for st in stmts:
            nxt = []
            for en in envs:
                nxt.extend(step(st, en))
            envs = nxt
        return envs

    def step(st, env):
        env = dict(env)
        if isinstance(st, ast.Assign):
            v = ev(st.value, env)
            for t in st.targets:
                bind(t, v, env, st)
            return [env]
        if isinstance(st, ast.AnnAssign):
            if st.value is not None:
                bind(st.target, ev(st.value, env), env, st)
            return [env]
        if isinstance(st, ast.AugAssign):
            if isinstance(st.target, ast.Name) and isinstance(st.op, ast.Add):
                add = ev(st.value, env)
                grow(st.target.id, env, st, min([a[1] for a in add if a[0] == 'list'] or [0]) if all(a[0] == 'list' for a in add) else 0)
            elif isinstance(st.target, ast.Subscript) and _is_name(st.target.value, table):
                raise UnknownIdiom('%s: in-place update of a stored value %s' % (f.qual, short(st, 60)))
            return [env]
        if isinstance(st, ast.Expr) and isinstance(st.value, ast.Call) and isinstance(st.value.func, ast.Attribute):
            c = st.value
            recv = c.func.value
            on_table_entry = isinstance(recv, ast.Subscript) and _is_name(recv.value, table)
            tracked = isinstance(recv, ast.Name) and any(a[0] in ('list', 'entry') for a in env.get(recv.id, _UNKNOWN))
            if _is_name(recv, table) and c.func.attr in _MAPPING_MUTATORS:
                raise UnknownIdiom('%s: the mapping is changed through %s' % (f.qual, short(c, 60)))
            if tracked or on_table_entry:
                if c.func.attr in _LIST_GROW:
                    if tracked:
                        grow(recv.id, env, st, 1)
                elif c.func.attr == 'extend' and len(c.args) == 1:
                    add = ev(c.args[0], env)
                    if tracked:
                        grow(recv.id, env, st, min(a[1] for a in add) if all(a[0] == 'list' for a in add) else 0)
                elif c.func.attr in ('reverse', 'sort'):
                    pass
                elif c.func.attr in ('pop', 'remove', 'clear', '__delitem__'):
                    raise UnknownIdiom('%s: a list that may be stored shrinks: %s' % (f.qual, short(c, 60)))
            return [env]
        if isinstance(st, ast.Delete):
            for t in st.targets:
                if isinstance(t, ast.Subscript) and isinstance(t.value, ast.Name) and not _is_name(t.value, table) \
                        and any(a[0] in ('list', 'entry') for a in env.get(t.value.id, _UNKNOWN)):
                    raise UnknownIdiom('%s: a list that may be stored shrinks: %s' % (f.qual, short(st, 60)))
            return [env]
        if isinstance(st, ast.If):
            return run_block(st.body, refine(st.test, True, env)) + run_block(st.orelse, refine(st.test, False, env))
        if isinstance(st, (ast.For, ast.AsyncFor)):
            body_env = dict(env)
            bind(st.target, _SCALAR if isinstance(st.target, ast.Name) else _UNKNOWN, body_env, st)
            return [env] + run_block(st.body, body_env) + run_block(st.orelse, env)
        if isinstance(st, ast.While):
            return [env] + run_block(st.body, env)
        if isinstance(st, (ast.With, ast.AsyncWith)):
            return run_block(st.body, env)
        if isinstance(st, ast.Try):
            res = run_block(st.body + st.orelse, env)
            for h in st.handlers:
                res += run_block(h.body, env)
            return [e2 for e in res for e2 in run_block(st.finalbody, e)] if st.finalbody else res
        if isinstance(st, ast.Return):
            if st.value is not None:
                returned.append(ev(st.value, env))
            return []
        if isinstance(st, (ast.Continue, ast.Break, ast.Raise)):
            return []
        return [env]

    env0 = {a: _SCALAR for a in f.params()}
    env0.update(args or {})
    run_block(f.node.body, env0)
    return out, returned


def _last_index_sites(p):
    """Every `<v>[-1]` in a parameter getter of the request class (or in a module-level helper it calls) -> (function,
    subscript node, guarded by a non-emptiness test of <v>?)."""
    mem = effective_members(p, WSGI_REQ)
    funcs = []
    for n, m in sorted(mem.items()):
        if (n == 'get_param' or n.startswith('get_param_as_')) and m.func is not None and m.kind == 'method':
            funcs.append(m.func)
            for c in walk_no_nested(m.func.node):
                if isinstance(c, ast.Call):
                    h = p.resolve_callable(m.func, c.func)
                    if isinstance(h, Func) and h.cls is None and h.module is m.func.module and h not in funcs:
                        funcs.append(h)
    sites = []
    for g in funcs:
        par = _parent_map(g.node)
        for x in walk_no_nested(g.node):
            if not (isinstance(x, ast.Subscript) and isinstance(x.ctx, ast.Load) and isinstance(x.value, ast.Name) and short(x.slice) == '-1'):
                continue
            var = x.value.id

            def nonempty(e, var=var):
                if _is_name(e, var):
                    return True
                if isinstance(e, ast.Call) and _is_name(e.func, 'len') and len(e.args) == 1 and _is_name(e.args[0], var):
                    return True
                if isinstance(e, ast.Compare) and len(e.ops) == 1 and nonempty(e.left) and not _is_name(e.left, var) \
                        and isinstance(e.comparators[0], ast.Constant):
                    op, c = e.ops[0], e.comparators[0].value
                    return (isinstance(op, ast.Gt) and c == 0) or (isinstance(op, ast.GtE) and c == 1) or (isinstance(op, ast.NotEq) and c == 0)
                return False

            guarded = False
            cur = x
            while id(cur) in par and not guarded:
                up = par[id(cur)]
                if isinstance(up, (ast.If, ast.IfExp)):
                    body = up.body if isinstance(up.body, list) else [up.body]
                    orelse = up.orelse if isinstance(up.orelse, list) else [up.orelse]
                    truth = True if any(cur is b for b in body) else False if any(cur is b for b in orelse) else None
                    if truth is not None:
                        # the comparison forms are atoms of their own; plain `v` / `len(v)` inside them must not be taken apart
                        atoms = [a for a in walk_self(up.test) if nonempty(a)]
                        for a in atoms:
                            if implied(up.test, truth, lambda e, a=a: e is a) is True:
                                guarded = True
                cur = up
            sites.append((g, x, guarded))
    return sites


def r17_stored_list_nonempty(run):
    """A list stored in the parameter mapping by parse_query_string has at least one element -- OR every getter that takes
    `[-1]` of a stored list does so under a non-emptiness guard.  Witness: auto_parse_qs_csv=True,
    keep_blank_qs_values=False, `?a=,` -> {'a': []}; get_param('a') raises IndexError (a 500)."""
    p = run.project
    f = p.func(PQS)
    run.use(f)
    rets = [r for r in walk_no_nested(f.node) if isinstance(r, ast.Return) and isinstance(r.value, ast.Name)]
    if len({r.value.id for r in rets}) != 1:
        raise UnknownIdiom('%s: the returned mapping is not one local' % f.qual)
    table = rets[0].value.id
    stores, _rets = _minlen_walk(p, f, table)
    if not stores:
        raise AnchorError('%s: no store into the mapping `%s`' % (f.qual, table))
    sites = None
    par = _parent_map(f.node)
    by_stmt = {}
    for st, v in stores:
        by_stmt.setdefault(id(st), (st, set()))[1].update(v)
    for st, alts in by_stmt.values():
        if ('unknown',) in alts:
            raise UnknownIdiom('%s: what %s stores is neither a string nor a list of known minimum length' % (f.qual, short(st, 70)))
        lens = [a[1] for a in alts if a[0] == 'list']
        if not lens:
            run.ok('a string (no list) is stored', f.loc(st), st)
            continue
        what = 'a list stored in the parameter mapping has at least one element (or every `[-1]` a getter takes of a stored list is guarded by a non-emptiness test)'
        if min(lens) >= 1:
            run.ok(what, f.loc(st), st)
            continue
        if sites is None:
            sites = _last_index_sites(p)
            if not sites:
                raise AnchorError('no `[-1]` on a stored value found in the parameter getters')
        bare = [(g, x) for g, x, guarded in sites if not guarded]
        # the construct names the store and the values of the function's flag parameters on the way to it, so that the same
        # store text under another flag setting is a finding of its own
        flags = {}
        cur = st
        while id(cur) in par:
            up = par[id(cur)]
            if isinstance(up, ast.If):
                truth = True if any(cur is b for b in up.body) else False if any(cur is b for b in up.orelse) else None
                if truth is not None:
                    for nm in f.params():
                        val = implied(up.test, truth, lambda e, nm=nm: _is_name(e, nm))
                        if val is not None and any(_is_name(x, nm) for x in walk_self(up.test)):
                            flags.setdefault(nm, val)
            cur = up
        cons = short(st, 200) + ''.join('  [%s=%s]' % kv for kv in sorted(flags.items()))
        # keyed by WHAT is stored when that can be said: the blank-filtered elements of the comma-separated value under a key
        # the mapping did not hold before (however the filter and the store are spelled); any other empty store by its text
        empties = {a[2] for a in alts if a[0] == 'list' and a[1] == 0}
        fresh = False
        cur = st
        while id(cur) in par:
            up = par[id(cur)]
            if isinstance(up, ast.If):
                truth = True if any(cur is b for b in up.body) else False if any(cur is b for b in up.orelse) else None
                for c in walk_self(up.test):
                    if truth is not None and isinstance(c, ast.Compare) and len(c.ops) == 1 and isinstance(c.ops[0], (ast.In, ast.NotIn)) \
                            and _is_name(c.comparators[0], table):
                        v_in = implied(up.test, truth, lambda e, c=c: e is c)
                        if v_in is not None and (v_in is False) == isinstance(c.ops[0], ast.In):
                            fresh = True
            cur = up
        if fresh and len(empties) == 1 and next(iter(empties)).startswith('blank-filtered'):
            cons = 'fresh-key store of the blank-filtered CSV elements (may be empty)' + next(iter(empties))[len('blank-filtered'):]
        run.check(not bare, what, f, cons, where=f.loc(st),
                  witness=['the stored list may be empty (minimum length 0)'] + ['%s %s: unguarded %s' % (g.loc(x), g.qual, short(x)) for g, x in bare],
                  runtime_witness="auto_parse_qs_csv=True, keep_blank_qs_values=False: '?a=,' is stored as {'a': []} and get_param('a') raises "
                                  'IndexError (a 500)')


def check(run):
    run.assume('the pure-Python parse_query_string/decode are decided; the Cython twin (falcon/cyutil/uri.pyx) replaces them when importable and is not analysed')
    run.assume('E5 assumptions: str/bytes methods and in-range slices are total; UTF-8 encoding of text without lone surrogates is total; '
               'a `transform` callable passed to get_param_as_list signals failure with ValueError (documented contract)')
    run.assume('media handlers used by get_param_as_json report failures as HTTPBadRequest subclasses (C12)')
    run.rule('R1', r1_split_then_decode, 'parse_query_string: split on & and first =, CSV split before decode, blank handling', floor=11)
    run.rule('R2', r2_total, 'parse_query_string / decode / _join_tokens_* are total on str input (4 functions examined)', floor=1)
    run.rule('R3', r3_getters, 'typed getters conform to the documented template', floor=100)
    run.rule('R4', r4_to_query_str, 'to_query_str encodes keys and values', floor=8)
    run.rule('R5', r5_options, 'both request classes pass keep_blank/csv options to parse_query_string', floor=6)
    # percent-decoding of names and values rests on the escape table and the
    # three decoder paths (shared with C10)
    from . import c10 as _c10

    from . import c19 as _c19

    run.rule('R8', _c19.r5_memo_returns_mutable, 'the parsed mapping is a fresh object per call (no memoised function hands out a mutable container; shared with C19 R5)', floor=5)
    run.rule('R9', r9_asgi_query_codec, 'the ASGI constructor decodes the raw query string as UTF-8 before parsing', floor=1)
    run.rule('R10', r10_json_length_in_bytes, 'get_param_as_json hands the JSON handler the byte length of the stream it builds', floor=1)
    run.rule('R6', _c10._safe(_c10.r2_escape_shape), '_HEX_TO_BYTE covers every hex pair of both cases (shared with C10 R2)', floor=10)
    run.rule('R7', _c10._safe(_c10.r4_decoder_paths), 'decoder paths share one skeleton; plus handling (shared with C10 R4)', floor=20)
    run.rule('R11', r11_no_retokenising, 'a typed getter converts the elements the parser stored: no second tokenising of a stored value under default arguments', floor=9)
    run.rule('R12', r12_json_handler_resolved, 'get_param_as_json converts with the handler the collection\'s resolver gives for the JSON media type '
             '(no plain mapping lookup on media_handlers; stock handler only as the fallback)', floor=1)
    # the parameter mapping of a request is the reading of ITS OWN query string: bound on every constructor path, or
    # an immutable class default (a mutable class-level default is one dict shared by every request without a query string)
    run.rule('R13', r13_params_per_request, 'req.params is per request: _params bound on every constructor path or an immutable class '
             'default, both stacks (shared with C06 R8)', floor=2)
    # the json getter turns every failure of the JSON handler into the documented 400-class error; that rests on
    # the handler mapping every loads() failure to a media error (shared with C12 R2)
    from . import c12 as _c12

    run.rule('R14', _c12._safe(_c12.r2_error_mapping), 'the JSON handler maps every loads() failure to the malformed-media error the json getter converts (shared with C12 R2)', floor=9)
    run.rule('R15', r15_undecoded_shortcut, "parse_query_string stores a name / value undecoded only behind a guard that excludes both '%' and '+'", floor=1)
    run.rule('R16', r16_presence_by_key, 'has_param decides presence by key membership in the parsed mapping, never by the truthiness of the stored value (evaluated on presence x stored-value cells)', floor=6)
    run.rule('R17', r17_stored_list_nonempty, 'a list parse_query_string stores is never empty, or every [-1] a getter takes of a stored list is guarded (minimum-length domain over the parser paths)', floor=4)
